#!/usr/bin/env python3
"""Regenerate MANIFEST.json from instances.json (claimed properties) and na.json (not applicable, with reasons)."""
import json, os
V = os.path.dirname(os.path.abspath(__file__))
inst = json.load(open(os.path.join(V, "instances.json")))
na = json.load(open(os.path.join(V, "na.json")))
checks = []
for pid in sorted(inst):
    s = inst[pid]
    checks.append({
        "property_id": pid,
        "quick_cmd": f"./check {pid} --tier quick",
        "thorough_cmd": f"./check {pid} --tier thorough",
        "evidence_file": f"/verif/evidence/{pid}.json",
        "replay_cmd_template": "./check --replay {path}",
        "engine": "kani-cbmc",
        "level_claimed": {
            "category": "model_checking",
            "text": s["level_text"],
            "design_ref": s.get("design_ref", "DESIGN.md §5." + pid),
        },
        "level_note": s["level_note"],
        "technique": "bounded symbolic execution of the compiled rust-bio code (Kani 0.68 -> CBMC 6.11 -> CaDiCaL SAT), concrete shapes x symbolic data, unwinding assertions on, counterexamples replayed natively",
    })
m = {
    "version": 1,
    "setup_cmd": "./check --setup",
    "hooks": {
        "guard": "none (no hooks were needed: every harness drives public API from the out-of-tree crate /verif/harness)",
        "enable": "n/a — checks build /repo as a path dependency of /verif/harness with default features",
        "baseline_off_cmd": "cd /repo && cargo test --workspace --no-fail-fast --offline",
        "source_commits": [],
        "add_only": True,
    },
    "engines": [{
        "name": "kani-cbmc",
        "path": "/verif/check",
        "serves_properties": sorted(inst),
        "kind_free_text": "Bounded model checking of the real code: cargo-kani 0.68.0 compiles /verif/harness (path dependency on /repo's working tree) to goto programs, CBMC 6.11.0 unwinds to the stated bounds with unwinding assertions, CaDiCaL decides; counterexamples are replayed natively through Kani's concrete playback before a VIOLATION is printed.",
    }],
    "checks": checks,
    "notes": "Exit 2 = inconclusive (timeout, OOM, unwinding failure, build failure, non-reproducing counterexample): never reported as success, never as a violation. Known findings: /verif/KNOWN_FINDINGS.txt. Checks serialize on a file lock (shared target dir).",
    "not_applicable": [{"property_id": k, "reason": v} for k, v in sorted(na.items()) if k not in inst],
}
json.dump(m, open(os.path.join(V, "MANIFEST.json"), "w"), indent=1)
print("MANIFEST.json:", len(checks), "checks,", len(m["not_applicable"]), "not applicable")
