//! C08 — exact pattern matchers return exactly all occurrences.
//! Oracle: naive window comparison, written from the definition of "occurrence".
use bio::pattern_matching::bndm::BNDM;
use bio::pattern_matching::bom::BOM;
use bio::pattern_matching::horspool::Horspool;
use bio::pattern_matching::kmp::KMP;
use bio::pattern_matching::shift_and::ShiftAnd;

#[cfg(kani)]
use crate::util::any_bytes;

/// Does `p` occur in `t` at start position `i`? (caller guarantees i + M <= N)
pub fn occurs_at<const M: usize, const N: usize>(p: &[u8; M], t: &[u8; N], i: usize) -> bool {
    let mut j = 0;
    while j < M {
        if p[j] != t[i + j] {
            return false;
        }
        j += 1;
    }
    true
}

/// Drive any iterator of reported start positions against the oracle: it must yield exactly the
/// occurrence starts in increasing order and then `None` (twice, to see that it stays exhausted).
pub fn expect_exact<const M: usize, const N: usize, I: Iterator<Item = usize>>(
    p: &[u8; M],
    t: &[u8; N],
    mut it: I,
) -> usize {
    let mut hits = 0;
    if N >= M {
        let mut i = 0;
        while i + M <= N {
            if occurs_at(p, t, i) {
                let got = it.next();
                assert!(got == Some(i), "C08: missing, spurious or out-of-order occurrence");
                hits += 1;
            }
            i += 1;
        }
    }
    assert!(it.next().is_none(), "C08: spurious occurrence reported");
    hits
}

#[cfg(kani)]
pub fn shift_and<const M: usize, const N: usize, const A: u16>() {
    let p = any_bytes::<M, A>();
    let t = any_bytes::<N, A>();
    let m = ShiftAnd::new(p.iter());
    let hits = expect_exact(&p, &t, m.find_all(t.iter()));
    kani::cover!(hits >= 1, "an occurrence exists");
    kani::cover!(hits == 0, "no occurrence");
}

#[cfg(kani)]
pub fn bndm<const M: usize, const N: usize, const A: u16>() {
    let p = any_bytes::<M, A>();
    let t = any_bytes::<N, A>();
    let m = BNDM::new(p.iter());
    let hits = expect_exact(&p, &t, m.find_all(&t[..]));
    kani::cover!(hits >= 1, "an occurrence exists");
    kani::cover!(hits == 0, "no occurrence");
}

#[cfg(kani)]
pub fn horspool<const M: usize, const N: usize, const A: u16>() {
    let p = any_bytes::<M, A>();
    let t = any_bytes::<N, A>();
    let m = Horspool::new(&p[..]);
    let hits = expect_exact(&p, &t, m.find_all(&t[..]));
    kani::cover!(hits >= 1, "an occurrence exists");
    kani::cover!(hits == 0, "no occurrence");
    core::mem::forget(m);
}

#[cfg(kani)]
pub fn kmp<const M: usize, const N: usize, const A: u16>() {
    let p = any_bytes::<M, A>();
    let t = any_bytes::<N, A>();
    let m = KMP::new(&p[..]);
    let hits = expect_exact(&p, &t, m.find_all(t.iter()));
    kani::cover!(hits >= 1, "an occurrence exists");
    kani::cover!(hits == 0, "no occurrence");
    core::mem::forget(m);
}

#[cfg(kani)]
pub fn bom<const M: usize, const N: usize, const A: u16>() {
    let p = any_bytes::<M, A>();
    let t = any_bytes::<N, A>();
    let m = BOM::new(p.iter());
    let hits = expect_exact(&p, &t, m.find_all(&t[..]));
    kani::cover!(hits >= 1, "an occurrence exists");
    kani::cover!(hits == 0, "no occurrence");
    core::mem::forget(m);
}

/// One matcher object, two different texts: second answer must not depend on the first search.
#[cfg(kani)]
pub fn reuse_shift_and<const M: usize, const N1: usize, const N2: usize, const A: u16>() {
    let p = any_bytes::<M, A>();
    let t1 = any_bytes::<N1, A>();
    let t2 = any_bytes::<N2, A>();
    let m = ShiftAnd::new(p.iter());
    let h1 = expect_exact(&p, &t1, m.find_all(t1.iter()));
    let h2 = expect_exact(&p, &t2, m.find_all(t2.iter()));
    kani::cover!(h1 >= 1 && h2 == 0, "hit then miss");
}
#[cfg(kani)]
pub fn reuse_bndm<const M: usize, const N1: usize, const N2: usize, const A: u16>() {
    let p = any_bytes::<M, A>();
    let t1 = any_bytes::<N1, A>();
    let t2 = any_bytes::<N2, A>();
    let m = BNDM::new(p.iter());
    let h1 = expect_exact(&p, &t1, m.find_all(&t1[..]));
    let h2 = expect_exact(&p, &t2, m.find_all(&t2[..]));
    kani::cover!(h1 >= 1 && h2 == 0, "hit then miss");
}
#[cfg(kani)]
pub fn reuse_horspool<const M: usize, const N1: usize, const N2: usize, const A: u16>() {
    let p = any_bytes::<M, A>();
    let t1 = any_bytes::<N1, A>();
    let t2 = any_bytes::<N2, A>();
    let m = Horspool::new(&p[..]);
    let h1 = expect_exact(&p, &t1, m.find_all(&t1[..]));
    let h2 = expect_exact(&p, &t2, m.find_all(&t2[..]));
    kani::cover!(h1 >= 1 && h2 == 0, "hit then miss");
    core::mem::forget(m);
}
#[cfg(kani)]
pub fn reuse_kmp<const M: usize, const N1: usize, const N2: usize, const A: u16>() {
    let p = any_bytes::<M, A>();
    let t1 = any_bytes::<N1, A>();
    let t2 = any_bytes::<N2, A>();
    let m = KMP::new(&p[..]);
    let h1 = expect_exact(&p, &t1, m.find_all(t1.iter()));
    let h2 = expect_exact(&p, &t2, m.find_all(t2.iter()));
    kani::cover!(h1 >= 1 && h2 == 0, "hit then miss");
    core::mem::forget(m);
}
#[cfg(kani)]
pub fn reuse_bom<const M: usize, const N1: usize, const N2: usize, const A: u16>() {
    let p = any_bytes::<M, A>();
    let t1 = any_bytes::<N1, A>();
    let t2 = any_bytes::<N2, A>();
    let m = BOM::new(p.iter());
    let h1 = expect_exact(&p, &t1, m.find_all(&t1[..]));
    let h2 = expect_exact(&p, &t2, m.find_all(&t2[..]));
    kani::cover!(h1 >= 1 && h2 == 0, "hit then miss");
    core::mem::forget(m);
}

// ---- instances (name, unwind, instantiation). Names are referenced from /verif/instances.json.
use crate::inst;
inst!(c08_shiftand_m1_n3_a3, 8, shift_and::<1, 3, 3>());
inst!(c08_shiftand_m2_n5_a3, 8, shift_and::<2, 5, 3>());
inst!(c08_shiftand_m3_n6_a3, 8, shift_and::<3, 6, 3>());
inst!(c08_shiftand_m2_n3_a256, 8, shift_and::<2, 3, 256>());
inst!(c08_shiftand_m3_n2_a256, 8, shift_and::<3, 2, 256>());
inst!(c08_shiftand_m63_n64_a2, 66, shift_and::<63, 64, 2>());
inst!(c08_shiftand_m64_n65_a2, 67, shift_and::<64, 65, 2>());
inst!(c08_shiftand_m4_n7_a3, 9, shift_and::<4, 7, 3>());
inst!(c08_shiftand_m3_n8_a3, 10, shift_and::<3, 8, 3>());
inst!(c08_shiftand_m64_n66_a2, 68, shift_and::<64, 66, 2>());

inst!(c08_bndm_m1_n3_a3, 8, bndm::<1, 3, 3>());
inst!(c08_bndm_m2_n5_a3, 8, bndm::<2, 5, 3>());
inst!(c08_bndm_m3_n6_a3, 8, bndm::<3, 6, 3>());
inst!(c08_bndm_m2_n3_a256, 8, bndm::<2, 3, 256>());
inst!(c08_bndm_m3_n2_a256, 8, bndm::<3, 2, 256>());
inst!(c08_bndm_m63_n64_a2, 66, bndm::<63, 64, 2>());
inst!(c08_bndm_m64_n65_a2, 67, bndm::<64, 65, 2>());
inst!(c08_bndm_m4_n7_a3, 9, bndm::<4, 7, 3>());
inst!(c08_bndm_m3_n8_a3, 10, bndm::<3, 8, 3>());
inst!(c08_bndm_m64_n66_a2, 68, bndm::<64, 66, 2>());

inst!(c08_horspool_m1_n3_a3, 258, horspool::<1, 3, 3>());
inst!(c08_horspool_m2_n5_a3, 258, horspool::<2, 5, 3>());
inst!(c08_horspool_m3_n6_a3, 258, horspool::<3, 6, 3>());
inst!(c08_horspool_m2_n3_a256, 258, horspool::<2, 3, 256>());
inst!(c08_horspool_m3_n2_a256, 258, horspool::<3, 2, 256>());
inst!(c08_horspool_m4_n7_a3, 258, horspool::<4, 7, 3>());
inst!(c08_horspool_m3_n8_a3, 258, horspool::<3, 8, 3>());
inst!(c08_horspool_m65_n66_a2, 258, horspool::<65, 66, 2>());

inst!(c08_kmp_m1_n3_a3, 8, kmp::<1, 3, 3>());
inst!(c08_kmp_m2_n5_a3, 8, kmp::<2, 5, 3>());
inst!(c08_kmp_m3_n6_a3, 8, kmp::<3, 6, 3>());
inst!(c08_kmp_m2_n3_a256, 8, kmp::<2, 3, 256>());
inst!(c08_kmp_m3_n2_a256, 8, kmp::<3, 2, 256>());
inst!(c08_kmp_m4_n7_a3, 9, kmp::<4, 7, 3>());
inst!(c08_kmp_m3_n8_a3, 10, kmp::<3, 8, 3>());
inst!(c08_kmp_m65_n66_a2, 68, kmp::<65, 66, 2>());

inst!(c08_bom_m1_n3_a3, 8, bom::<1, 3, 3>());
inst!(c08_bom_m2_n5_a3, 8, bom::<2, 5, 3>());
inst!(c08_bom_m3_n6_a3, 8, bom::<3, 6, 3>());
inst!(c08_bom_m2_n3_a256, 258, bom::<2, 3, 256>());
inst!(c08_bom_m3_n2_a256, 258, bom::<3, 2, 256>());
inst!(c08_bom_m4_n7_a3, 9, bom::<4, 7, 3>());
inst!(c08_bom_m3_n8_a3, 10, bom::<3, 8, 3>());

inst!(c08_reuse_shiftand, 8, reuse_shift_and::<2, 4, 3, 3>());
inst!(c08_reuse_bndm, 8, reuse_bndm::<2, 4, 3, 3>());
inst!(c08_reuse_horspool, 258, reuse_horspool::<2, 4, 3, 3>());
inst!(c08_reuse_kmp, 8, reuse_kmp::<2, 4, 3, 3>());
inst!(c08_reuse_bom, 8, reuse_bom::<2, 4, 3, 3>());
inst!(c08_bom_m1_n2_a2, 6, bom::<1, 2, 2>());
inst!(c08_bom_m2_n3_a2, 6, bom::<2, 3, 2>());

// ---- boundary lengths for the bit-parallel matchers: CONCRETE pattern (period-3 over {A,C}), symbolic text over {A,C}.
// The 64-symbol limit is a property of the pattern's *shape*; keeping its content concrete lets CBMC constant-fold the
// mask table so that the text scan at m = 63/64 stays tractable.
pub fn fixed_pattern<const M: usize>() -> [u8; M] {
    let mut p = [b'C'; M];
    let mut i = 0;
    while i < M {
        if i % 3 == 0 {
            p[i] = b'A';
        }
        i += 1;
    }
    p
}
#[cfg(kani)]
pub fn text_ac<const N: usize>() -> [u8; N] {
    let sel: [bool; N] = kani::any();
    let mut t = [b'C'; N];
    let mut i = 0;
    while i < N {
        if sel[i] {
            t[i] = b'A';
        }
        i += 1;
    }
    t
}
#[cfg(kani)]
pub fn shift_and_fixed<const M: usize, const N: usize>() {
    let p = fixed_pattern::<M>();
    let t = text_ac::<N>();
    let m = ShiftAnd::new(p.iter());
    let hits = expect_exact(&p, &t, m.find_all(t.iter()));
    kani::cover!(hits >= 1, "an occurrence exists");
    kani::cover!(hits == 0, "no occurrence");
}
#[cfg(kani)]
pub fn bndm_fixed<const M: usize, const N: usize>() {
    let p = fixed_pattern::<M>();
    let t = text_ac::<N>();
    let m = BNDM::new(p.iter());
    let hits = expect_exact(&p, &t, m.find_all(&t[..]));
    kani::cover!(hits >= 1, "an occurrence exists");
    kani::cover!(hits == 0, "no occurrence");
}
inst!(c08_shiftand_fixed_m63_n64, 66, shift_and_fixed::<63, 64>());
inst!(c08_shiftand_fixed_m64_n64, 66, shift_and_fixed::<64, 64>());
inst!(c08_shiftand_fixed_m64_n65, 67, shift_and_fixed::<64, 65>());
inst!(c08_shiftand_fixed_m64_n67, 69, shift_and_fixed::<64, 67>());
inst!(c08_bndm_fixed_m63_n64, 66, bndm_fixed::<63, 64>());
inst!(c08_bndm_fixed_m64_n64, 66, bndm_fixed::<64, 64>());
inst!(c08_bndm_fixed_m64_n65, 67, bndm_fixed::<64, 65>());
inst!(c08_bndm_fixed_m64_n67, 69, bndm_fixed::<64, 67>());

/// BNDM at the 64-symbol boundary: text = pattern except at K symbolic positions (spread evenly), which may flip A<->C.
#[cfg(kani)]
pub fn bndm_fixed_sparse<const M: usize, const N: usize, const K: usize>() {
    let p = fixed_pattern::<M>();
    let mut t = [b'C'; N];
    let mut i = 0;
    while i < N {
        t[i] = if i < M { p[i] } else { b'C' };
        i += 1;
    }
    let mut k = 0;
    while k < K {
        let pos = (k * (N - 1)) / (if K > 1 { K - 1 } else { 1 });
        let flip: bool = kani::any();
        if flip {
            t[pos] = if t[pos] == b'A' { b'C' } else { b'A' };
        }
        k += 1;
    }
    let m = BNDM::new(p.iter());
    let hits = expect_exact(&p, &t, m.find_all(&t[..]));
    kani::cover!(hits >= 1, "an occurrence exists");
    if K > 0 {
        kani::cover!(hits == 0, "no occurrence");
    }
}
inst!(c08_bndm_sparse_m64_n64_k0, 66, bndm_fixed_sparse::<64, 64, 0>());
inst!(c08_bndm_sparse_m64_n64_k2, 66, bndm_fixed_sparse::<64, 64, 2>());
inst!(c08_bndm_sparse_m64_n65_k3, 67, bndm_fixed_sparse::<64, 65, 3>());
inst!(c08_bndm_sparse_m63_n64_k3, 66, bndm_fixed_sparse::<63, 64, 3>());

// ---- structured CONCRETE patterns (nested borders / periodic / ruler words) x ALL texts of length N over a small alphabet.
// The hard cases of exact matching live in the border structure of the pattern; with the pattern concrete the matcher's
// tables (lps, shift, oracle transitions, masks) are constant-folded by CBMC and only the text scan is symbolic.
pub fn occurs_at_s<const N: usize>(p: &[u8], t: &[u8; N], i: usize) -> bool {
    let mut j = 0;
    while j < p.len() {
        if p[j] != t[i + j] {
            return false;
        }
        j += 1;
    }
    true
}
pub fn expect_exact_s<const N: usize, I: Iterator<Item = usize>>(p: &[u8], t: &[u8; N], mut it: I) -> usize {
    let mut hits = 0;
    let mut i = 0;
    while i + p.len() <= N {
        if occurs_at_s(p, t, i) {
            let got = it.next();
            assert!(got == Some(i), "C08: missing, spurious or out-of-order occurrence");
            hits += 1;
        }
        i += 1;
    }
    assert!(it.next().is_none(), "C08: spurious occurrence reported");
    hits
}
#[cfg(kani)]
pub fn text_over<const N: usize>(alpha: &[u8]) -> [u8; N] {
    let mut t = [0u8; N];
    let mut i = 0;
    while i < N {
        let k: usize = kani::any();
        kani::assume(k < alpha.len());
        t[i] = alpha[k];
        i += 1;
    }
    t
}
/// WHICH: 0 ShiftAnd, 1 BNDM, 2 KMP, 3 Horspool, 4 BOM
#[cfg(kani)]
pub fn fixed_pat<const N: usize, const WHICH: u8>(p: &[u8], alpha: &[u8]) {
    let t = text_over::<N>(alpha);
    let hits = match WHICH {
        0 => {
            let m = ShiftAnd::new(p.iter());
            expect_exact_s(p, &t, m.find_all(t.iter()))
        }
        1 => {
            let m = BNDM::new(p.iter());
            expect_exact_s(p, &t, m.find_all(&t[..]))
        }
        2 => {
            let m = KMP::new(p);
            let h = expect_exact_s(p, &t, m.find_all(t.iter()));
            core::mem::forget(m);
            h
        }
        3 => {
            let m = Horspool::new(p);
            let h = expect_exact_s(p, &t, m.find_all(&t[..]));
            core::mem::forget(m);
            h
        }
        _ => {
            let m = BOM::new(p.iter());
            let h = expect_exact_s(p, &t, m.find_all(&t[..]));
            core::mem::forget(m);
            h
        }
    };
    kani::cover!(hits >= 1, "an occurrence exists");
    kani::cover!(hits == 0, "no occurrence");
}
// pattern families: fib = Fibonacci word, ruler = abacabad, nest = abaabaa (three nested borders), aaa = unary, acag
inst!(c08_kmp_fix_nest_n12, 15, fixed_pat::<12, 2>(&[0, 1, 0, 0, 1, 0, 0], &[0, 1, 2]));
inst!(c08_kmp_fix_ruler_n12, 15, fixed_pat::<12, 2>(&[0, 1, 0, 2, 0, 1, 0, 3], &[0, 1, 2, 3]));
inst!(c08_kmp_fix_fib_n12, 15, fixed_pat::<12, 2>(&[0, 1, 0, 0, 1, 0, 1, 0], &[0, 1, 2]));
inst!(c08_kmp_fix_aaa_n7, 10, fixed_pat::<7, 2>(&[0, 0, 0], &[0, 1]));
inst!(c08_kmp_fix_acag_n8, 11, fixed_pat::<8, 2>(&[0, 2, 0, 4], &[0, 2, 4]));
inst!(c08_bndm_fix_nest_n10, 13, fixed_pat::<10, 1>(&[0, 1, 0, 0, 1, 0, 0], &[0, 1, 2]));
inst!(c08_bndm_fix_aaa_n6, 9, fixed_pat::<6, 1>(&[0, 0, 0], &[0, 1]));
inst!(c08_bndm_fix_acag_n6, 9, fixed_pat::<6, 1>(&[0, 2, 0, 4], &[0, 2, 4]));
inst!(c08_bndm_fix_ruler_n10, 13, fixed_pat::<10, 1>(&[0, 1, 0, 2, 0, 1, 0, 3], &[0, 1, 2, 3]));
inst!(c08_shiftand_fix_nest_n12, 15, fixed_pat::<12, 0>(&[0, 1, 0, 0, 1, 0, 0], &[0, 1, 2]));
inst!(c08_shiftand_fix_aaa_n7, 10, fixed_pat::<7, 0>(&[0, 0, 0], &[0, 1]));
inst!(c08_horspool_fix_nest_n10, 258, fixed_pat::<10, 3>(&[0, 1, 0, 0, 1, 0, 0], &[0, 1, 2]));
inst!(c08_horspool_fix_aaa_n6, 258, fixed_pat::<6, 3>(&[0, 0, 0], &[0, 1]));
inst!(c08_horspool_fix_acag_n7, 258, fixed_pat::<7, 3>(&[0, 2, 0, 4], &[0, 2, 4]));
inst!(c08_horspool_fix_a_n3, 258, fixed_pat::<3, 3>(&[0], &[0, 1]));
inst!(c08_bom_fix_nest_n10, 14, fixed_pat::<10, 4>(&[0, 1, 0, 0, 1, 0, 0], &[0, 1, 2]));
inst!(c08_bom_fix_aaa_n6, 10, fixed_pat::<6, 4>(&[0, 0, 0], &[0, 1]));
inst!(c08_bom_fix_acag_n7, 11, fixed_pat::<7, 4>(&[0, 2, 0, 4], &[0, 2, 4]));
inst!(c08_bom_fix_a_n3, 7, fixed_pat::<3, 4>(&[0], &[0, 1]));
