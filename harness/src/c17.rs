//! C17 — rank/select and wavelet-matrix queries equal naive counting.
//! Oracle: the bit vector is modelled by a machine word `w` (bit i of the vector = bit i of w, N <= 128), so the oracle is
//! loop-free (`count_ones` of a masked word, a declarative "is this the j-th matching bit" predicate) and the harness
//! needs no unwinding beyond the library's own loops (blocks of a superblock, bits of a byte).
use bio::data_structures::rank_select::RankSelect;
use bio::data_structures::wavelet_matrix::WaveletMatrix;
use bv::BitVec;

#[cfg(kani)]
fn sym_bits<const N: usize>() -> (BitVec<u8>, u128) {
    use bv::BitsMut;
    let w: u128 = kani::any();
    let w = if N < 128 { w & ((1u128 << N) - 1) } else { w };
    let mut bits: BitVec<u8> = BitVec::new_fill(false, N as u64);
    let full = N / 8;
    let mut b = 0;
    while b < full {
        bits.set_block(b, (w >> (8 * b)) as u8);
        b += 1;
    }
    // bits of the last, partial byte one by one, so that padding bits stay zero as the API leaves them
    let mut i = full * 8;
    while i < N {
        bits.set(i as u64, (w >> i) & 1 == 1);
        i += 1;
    }
    (bits, w)
}

/// mask with the low `k` bits set (k <= 128)
fn low(k: usize) -> u128 {
    if k >= 128 {
        u128::MAX
    } else {
        (1u128 << k) - 1
    }
}
/// number of positions p <= i (p < n) with bit == x (definition, loop-free)
fn count_upto(w: u128, n: usize, i: usize, x: bool) -> u64 {
    let upto = if i + 1 < n { i + 1 } else { n };
    let ones = (w & low(upto)).count_ones() as u64;
    if x {
        ones
    } else {
        upto as u64 - ones
    }
}
/// is `got` the correct answer for "position of the j-th (1-based) bit equal to x"? (declarative, loop-free)
fn select_ok(w: u128, n: usize, j: u64, x: bool, got: Option<u64>) -> bool {
    match got {
        Some(p) => {
            let p = p as usize;
            p < n && (((w >> p) & 1 == 1) == x) && count_upto(w, n, p, x) == j && j >= 1
        }
        None => j == 0 || j > count_upto(w, n, n - 1, x),
    }
}

#[cfg(kani)]
pub fn rank<const N: usize, const K: usize>() {
    let (bits, w) = sym_bits::<N>();
    let rs = RankSelect::new(bits, K);
    let i: u64 = kani::any();
    kani::assume(i <= N as u64 + 1);
    let r1 = rs.rank_1(i);
    let r0 = rs.rank_0(i);
    if (i as usize) < N {
        assert!(r1 == Some(count_upto(w, N, i as usize, true)), "C17: rank_1 differs from naive count");
        assert!(r0 == Some(count_upto(w, N, i as usize, false)), "C17: rank_0 differs from naive count");
        assert!(rs.get(i) == ((w >> i) & 1 == 1));
    } else {
        assert!(r1.is_none() && r0.is_none(), "C17: rank beyond the end must be None");
    }
    kani::cover!(i as usize == N - 1 && r1 == Some(1), "last position");
    if N > 8 {
        kani::cover!(i >= 8 && r1 == Some(2), "crosses a byte boundary");
    }
    core::mem::forget(rs);
}

#[cfg(kani)]
pub fn select<const N: usize, const K: usize>() {
    let (bits, w) = sym_bits::<N>();
    let rs = RankSelect::new(bits, K);
    let j: u64 = kani::any();
    kani::assume(j <= N as u64 + 1);
    let s1 = rs.select_1(j);
    let s0 = rs.select_0(j);
    assert!(select_ok(w, N, j, true, s1), "C17: select_1 is not the position of the j-th one (or None)");
    assert!(select_ok(w, N, j, false, s0), "C17: select_0 is not the position of the j-th zero (or None; padding bit?)");
    kani::cover!(s1 == Some(N as u64 - 1), "last bit selected");
    kani::cover!(s0.is_none() && j > 0 && j <= N as u64, "fewer zeros than j");
    if N > 32 {
        kani::cover!(s1 == Some(31) && j == 32, "32nd one is the last bit of the first superblock");
    }
    core::mem::forget(rs);
}

/// rank and select are mutually inverse, separate query to keep each formula small.
#[cfg(kani)]
pub fn inverse<const N: usize, const K: usize>() {
    let (bits, _w) = sym_bits::<N>();
    let rs = RankSelect::new(bits, K);
    let j: u64 = kani::any();
    kani::assume(j >= 1 && j <= N as u64);
    let s1 = rs.select_1(j);
    if let Some(p) = s1 {
        assert!(rs.rank_1(p) == Some(j), "C17: rank_1(select_1(j)) != j");
    }
    if let Some(p) = rs.select_0(j) {
        assert!(rs.rank_0(p) == Some(j), "C17: rank_0(select_0(j)) != j");
    }
    kani::cover!(s1.is_some() && j >= 2, "j-th one exists");
    core::mem::forget(rs);
}

const SYMS: [u8; 6] = *b"ACGTN$";

/// WaveletMatrix over a text of N symbols from "ACGTN$" (symbolic), symbolic query symbol and position.
#[cfg(kani)]
pub fn wavelet<const N: usize>() {
    let mut text = [0u8; N];
    let mut i = 0;
    while i < N {
        let k: usize = kani::any();
        kani::assume(k < 6);
        text[i] = SYMS[k];
        i += 1;
    }
    let wm = WaveletMatrix::new(&text);
    let k: usize = kani::any();
    kani::assume(k < 6);
    let c = SYMS[k];
    let p: usize = kani::any();
    kani::assume(p < N);
    let mut want = 0u64;
    let mut q = 0;
    while q < N {
        if q <= p && text[q] == c {
            want += 1;
        }
        q += 1;
    }
    assert!(wm.rank(c, p as u64) == want, "C17: WaveletMatrix::rank differs from naive count");
    if N >= 2 {
        kani::cover!(want >= 2, "symbol occurs at least twice in the prefix");
    }
    kani::cover!(want == 0, "symbol absent from the prefix");
    core::mem::forget(wm);
}

use crate::inst;
inst!(c17_rank_n1_k1, 11, rank::<1, 1>());
inst!(c17_rank_n7_k1, 11, rank::<7, 1>());
inst!(c17_rank_n8_k1, 11, rank::<8, 1>());
inst!(c17_rank_n9_k1, 11, rank::<9, 1>());
inst!(c17_rank_n31_k1, 11, rank::<31, 1>());
inst!(c17_rank_n33_k1, 11, rank::<33, 1>());
inst!(c17_rank_n40_k1, 11, rank::<40, 1>());
inst!(c17_rank_n65_k1, 12, rank::<65, 1>());
inst!(c17_rank_n65_k2, 12, rank::<65, 2>());
inst!(c17_rank_n72_k2, 13, rank::<72, 2>());
inst!(c17_rank_n128_k2, 20, rank::<128, 2>());
inst!(c17_rank_n100_k3, 17, rank::<100, 3>());
inst!(c17_select_n1_k1, 11, select::<1, 1>());
inst!(c17_select_n7_k1, 11, select::<7, 1>());
inst!(c17_select_n8_k1, 11, select::<8, 1>());
inst!(c17_select_n9_k1, 11, select::<9, 1>());
inst!(c17_select_n16_k1, 11, select::<16, 1>());
inst!(c17_select_n17_k1, 11, select::<17, 1>());
inst!(c17_select_n24_k1, 11, select::<24, 1>());
inst!(c17_select_n31_k1, 11, select::<31, 1>());
inst!(c17_select_n33_k1, 11, select::<33, 1>());
inst!(c17_select_n40_k1, 11, select::<40, 1>());
inst!(c17_select_n65_k1, 12, select::<65, 1>());
inst!(c17_select_n65_k2, 12, select::<65, 2>());
inst!(c17_select_n72_k2, 13, select::<72, 2>());
inst!(c17_inverse_n9_k1, 11, inverse::<9, 1>());
inst!(c17_inverse_n33_k1, 11, inverse::<33, 1>());
inst!(c17_inverse_n65_k2, 12, inverse::<65, 2>());
inst!(c17_wavelet_n1, 10, wavelet::<1>());
inst!(c17_wavelet_n2, 10, wavelet::<2>());
inst!(c17_wavelet_n3, 10, wavelet::<3>());
