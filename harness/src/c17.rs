//! C17 — rank/select and wavelet-matrix queries equal naive counting.
//! Oracle: counting loops over a `[bool; N]` model of the bit vector / a byte array model of the text.
use bio::data_structures::rank_select::RankSelect;
use bio::data_structures::wavelet_matrix::WaveletMatrix;
use bv::BitVec;

#[cfg(kani)]
fn sym_bits<const N: usize>() -> (BitVec<u8>, [bool; N]) {
    let model: [bool; N] = kani::any();
    let mut bits: BitVec<u8> = BitVec::new_fill(false, N as u64);
    let mut i = 0;
    while i < N {
        bits.set(i as u64, model[i]);
        i += 1;
    }
    (bits, model)
}

fn count_upto<const N: usize>(model: &[bool; N], i: usize, x: bool) -> u64 {
    // number of positions p <= i (p < N) with model[p] == x
    let mut c = 0u64;
    let mut p = 0;
    while p < N {
        if p <= i && model[p] == x {
            c += 1;
        }
        p += 1;
    }
    c
}

/// position of the j-th (1-based) bit equal to x, if any
fn select_naive<const N: usize>(model: &[bool; N], j: u64, x: bool) -> Option<u64> {
    let mut c = 0u64;
    let mut p = 0;
    while p < N {
        if model[p] == x {
            c += 1;
            if c == j {
                return Some(p as u64);
            }
        }
        p += 1;
    }
    None
}

#[cfg(kani)]
pub fn rank<const N: usize, const K: usize>() {
    let (bits, model) = sym_bits::<N>();
    let rs = RankSelect::new(bits, K);
    let i: u64 = kani::any();
    kani::assume(i <= N as u64 + 1);
    let r1 = rs.rank_1(i);
    let r0 = rs.rank_0(i);
    if (i as usize) < N {
        assert!(r1 == Some(count_upto(&model, i as usize, true)), "C17: rank_1 differs from naive count");
        assert!(r0 == Some(count_upto(&model, i as usize, false)), "C17: rank_0 differs from naive count");
        assert!(rs.get(i) == model[i as usize]);
    } else {
        assert!(r1.is_none() && r0.is_none(), "C17: rank beyond the end must be None");
    }
    kani::cover!(i as usize == N - 1 && r1 == Some(1), "last position");
    if N > 8 {
        kani::cover!(i >= 8 && r1 == Some(2), "crosses a byte boundary");
    }
    core::mem::forget(rs);
}

#[cfg(kani)]
pub fn select<const N: usize, const K: usize>() {
    let (bits, model) = sym_bits::<N>();
    let rs = RankSelect::new(bits, K);
    let j: u64 = kani::any();
    kani::assume(j <= N as u64 + 1);
    let s1 = rs.select_1(j);
    let s0 = rs.select_0(j);
    if j == 0 {
        assert!(s1.is_none() && s0.is_none(), "C17: select(0) must be None");
    } else {
        assert!(s1 == select_naive(&model, j, true), "C17: select_1 differs from naive scan");
        assert!(s0 == select_naive(&model, j, false), "C17: select_0 differs from naive scan (padding bit?)");
    }
    // mutual inverse laws
    if let Some(p) = s1 {
        assert!(rs.rank_1(p) == Some(j));
    }
    if let Some(p) = s0 {
        assert!(rs.rank_0(p) == Some(j));
    }
    kani::cover!(s1 == Some(N as u64 - 1), "last bit selected");
    kani::cover!(s0.is_none() && j > 0 && j <= N as u64, "fewer zeros than j");
    core::mem::forget(rs);
}


/// Superblock-boundary family: the first P bits are all equal to one symbolic bit b (an all-zero or all-one aligned run,
/// the case the First/Some superblock markers exist for), the remaining N-P bits are symbolic. All query arguments symbolic.
#[cfg(kani)]
pub fn select_run<const N: usize, const P: usize, const K: usize>() {
    let b: bool = kani::any();
    let tail: [bool; N] = kani::any();
    let mut model = [false; N];
    let mut bits: BitVec<u8> = BitVec::new_fill(false, N as u64);
    let mut i = 0;
    while i < N {
        model[i] = if i < P { b } else { tail[i] };
        bits.set(i as u64, model[i]);
        i += 1;
    }
    let rs = RankSelect::new(bits, K);
    let j: u64 = kani::any();
    kani::assume(j <= N as u64 + 1);
    let s1 = rs.select_1(j);
    let s0 = rs.select_0(j);
    if j == 0 {
        assert!(s1.is_none() && s0.is_none(), "C17: select(0) must be None");
    } else {
        assert!(s1 == select_naive(&model, j, true), "C17: select_1 differs from naive scan");
        assert!(s0 == select_naive(&model, j, false), "C17: select_0 differs from naive scan (padding bit?)");
    }
    let i: u64 = kani::any();
    kani::assume(i <= N as u64);
    if (i as usize) < N {
        assert!(rs.rank_1(i) == Some(count_upto(&model, i as usize, true)), "C17: rank_1 differs from naive count");
    }
    kani::cover!(s1 == Some(P as u64 - 1), "last bit of the run selected");
    kani::cover!(s0 == Some(P as u64), "first bit after the run selected");
    core::mem::forget(rs);
}

const SYMS: [u8; 6] = *b"ACGTN$";

/// WaveletMatrix over a text of N symbols from "ACGTN$" (symbolic), symbolic query symbol and position.
#[cfg(kani)]
pub fn wavelet<const N: usize>() {
    let mut text = [0u8; N];
    let mut i = 0;
    while i < N {
        let k: usize = kani::any();
        kani::assume(k < 6);
        text[i] = SYMS[k];
        i += 1;
    }
    let wm = WaveletMatrix::new(&text);
    let k: usize = kani::any();
    kani::assume(k < 6);
    let c = SYMS[k];
    let p: usize = kani::any();
    kani::assume(p < N);
    let mut want = 0u64;
    let mut q = 0;
    while q < N {
        if q <= p && text[q] == c {
            want += 1;
        }
        q += 1;
    }
    assert!(wm.rank(c, p as u64) == want, "C17: WaveletMatrix::rank differs from naive count");
    if N >= 2 {
        kani::cover!(want >= 2, "symbol occurs at least twice in the prefix");
    }
    kani::cover!(want == 0, "symbol absent from the prefix");
    core::mem::forget(wm);
}

use crate::inst;
inst!(c17_rank_n1_k1, 12, rank::<1, 1>());
inst!(c17_rank_n7_k1, 12, rank::<7, 1>());
inst!(c17_rank_n8_k1, 12, rank::<8, 1>());
inst!(c17_rank_n9_k1, 12, rank::<9, 1>());
inst!(c17_rank_n31_k1, 34, rank::<31, 1>());
inst!(c17_rank_n33_k1, 36, rank::<33, 1>());
inst!(c17_rank_n40_k1, 43, rank::<40, 1>());
inst!(c17_rank_n65_k1, 68, rank::<65, 1>());
inst!(c17_rank_n72_k2, 75, rank::<72, 2>());
inst!(c17_rank_n65_k2, 68, rank::<65, 2>());
inst!(c17_select_n1_k1, 12, select::<1, 1>());
inst!(c17_select_n7_k1, 12, select::<7, 1>());
inst!(c17_select_n8_k1, 12, select::<8, 1>());
inst!(c17_select_n9_k1, 12, select::<9, 1>());
inst!(c17_select_n31_k1, 34, select::<31, 1>());
inst!(c17_select_n33_k1, 36, select::<33, 1>());
inst!(c17_select_n40_k1, 43, select::<40, 1>());
inst!(c17_select_n65_k1, 68, select::<65, 1>());
inst!(c17_select_n72_k2, 75, select::<72, 2>());
inst!(c17_select_n65_k2, 68, select::<65, 2>());
inst!(c17_wavelet_n1, 10, wavelet::<1>());
inst!(c17_wavelet_n3, 10, wavelet::<3>());
inst!(c17_wavelet_n5, 10, wavelet::<5>());
inst!(c17_wavelet_n6, 10, wavelet::<6>());
inst!(c17_select_n16_k1, 19, select::<16, 1>());
inst!(c17_select_n17_k1, 20, select::<17, 1>());
inst!(c17_select_n24_k1, 27, select::<24, 1>());
inst!(c17_wavelet_n2, 10, wavelet::<2>());
inst!(c17_selectrun_n36_p32_k1, 40, select_run::<36, 32, 1>());
inst!(c17_selectrun_n40_p31_k1, 44, select_run::<40, 31, 1>());
inst!(c17_selectrun_n40_p33_k1, 44, select_run::<40, 33, 1>());
inst!(c17_selectrun_n68_p64_k2, 72, select_run::<68, 64, 2>());
inst!(c17_selectrun_n68_p64_k1, 72, select_run::<68, 64, 1>());
