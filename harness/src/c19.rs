//! C19 — k-mer indexing and chaining are exact.
use bio::alignment::sparse::{lcskpp, sdpkpp, sdpkpp_union_lcskpp_path};
use bio::alphabets::{Alphabet, RankTransform};
use bio::data_structures::qgram_index::QGramIndex;

#[cfg(kani)]
use crate::c04::bytes_from;

fn rank_of(alpha: &[u8], b: u8) -> usize {
    // alpha is given in increasing byte order; rank = index
    let mut i = 0;
    while i < alpha.len() {
        if alpha[i] == b {
            return i;
        }
        i += 1;
    }
    usize::MAX
}

fn bits_for(size: usize) -> u32 {
    // ceil(log2(size)) by definition
    let mut b = 0;
    while (1usize << b) < size {
        b += 1;
    }
    b
}

/// textbook q-gram code: ranks packed `bits` per symbol, first symbol most significant
fn code_at<const N: usize>(alpha: &[u8], t: &[u8; N], i: usize, q: usize) -> usize {
    let bits = bits_for(alpha.len());
    let mut c = 0usize;
    let mut j = 0;
    while j < q {
        c = (c << bits) | rank_of(alpha, t[i + j]);
        j += 1;
    }
    c
}

fn same_qgram<const N: usize>(t: &[u8; N], i: usize, j: usize, q: usize) -> bool {
    let mut k = 0;
    while k < q {
        if t[i + k] != t[j + k] {
            return false;
        }
        k += 1;
    }
    true
}

/// RankTransform::qgrams / rev_qgrams: code definition, injectivity, mirror.
#[cfg(kani)]
pub fn qgrams<const N: usize, const Q: usize>(alpha: &[u8]) {
    let t = bytes_from::<N>(alpha);
    let a = Alphabet::new(alpha);
    let rt = RankTransform::new(&a);
    let cnt = N + 1 - Q;
    let mut codes = [0usize; N];
    let mut it = rt.qgrams(Q as u32, t.iter());
    let mut i = 0;
    while i < cnt {
        let c = it.next();
        assert!(c == Some(code_at(alpha, &t, i, Q)), "C19: q-gram code differs from the packed-rank definition");
        codes[i] = c.unwrap();
        i += 1;
    }
    assert!(it.next().is_none(), "C19: too many q-grams");
    // injective
    let i1: usize = kani::any();
    let i2: usize = kani::any();
    kani::assume(i1 < cnt && i2 < cnt);
    assert!((codes[i1] == codes[i2]) == same_qgram(&t, i1, i2, Q), "C19: q-gram codes are not injective");
    // reverse iteration mirrors forward iteration
    let mut rit = rt.rev_qgrams(Q as u32, t.iter());
    let mut i = cnt;
    while i > 0 {
        i -= 1;
        assert!(rit.next() == Some(codes[i]), "C19: rev_qgrams does not mirror qgrams");
    }
    assert!(rit.next().is_none());
    kani::cover!(cnt >= 2 && codes[0] == codes[cnt - 1], "repeated q-gram");
    core::mem::forget(rt);
    core::mem::forget(a);
}

/// QGramIndex: for the q-gram at a symbolic text position, the list is exactly the ascending occurrence positions,
/// or empty if it occurs more than max_count times.
#[cfg(kani)]
pub fn qgram_index<const N: usize, const Q: usize, const MASKED: bool>(alpha: &[u8]) {
    let t = bytes_from::<N>(alpha);
    let a = Alphabet::new(alpha);
    let cnt = N + 1 - Q;
    let max_count: usize = if MASKED { kani::any() } else { usize::MAX };
    if MASKED {
        kani::assume(max_count <= N);
    }
    let idx = QGramIndex::with_max_count(Q as u32, t.iter(), &a, max_count);
    let i: usize = kani::any();
    kani::assume(i < cnt);
    let code = code_at(alpha, &t, i, Q);
    let got = idx.qgram_matches(code);
    let mut occ = 0;
    let mut j = 0;
    while j < cnt {
        if same_qgram(&t, i, j, Q) {
            occ += 1;
        }
        j += 1;
    }
    if occ > max_count {
        assert!(got.is_empty(), "C19: q-gram above max_count must be masked");
    } else {
        assert!(got.len() == occ, "C19: number of listed positions differs from the number of occurrences");
        let mut k = 0;
        let mut j = 0;
        while j < cnt {
            if same_qgram(&t, i, j, Q) {
                assert!(got[k] == j, "C19: listed positions are not the ascending occurrence positions");
                k += 1;
            }
            j += 1;
        }
    }
    kani::cover!(occ >= 2 && occ <= max_count, "q-gram with at least two occurrences listed");
    if MASKED {
        kani::cover!(occ > max_count, "masked q-gram");
    }
    core::mem::forget(idx);
    core::mem::forget(a);
}

/// LCSk++ score of a chain given as a strictly increasing index list (by definition)
fn chain_ok_and_score<const K: usize>(m: &[(u32, u32); K], sel: &[bool; K], k: u32) -> Option<u32> {
    let mut score = 0u32;
    let mut prev: Option<(u32, u32)> = None;
    let mut i = 0;
    while i < K {
        if sel[i] {
            match prev {
                None => score += k,
                Some((px, py)) => {
                    let (x, y) = m[i];
                    if x == px + 1 && y == py + 1 {
                        score += 1;
                    } else if x >= px + k && y >= py + k {
                        score += k;
                    } else {
                        return None;
                    }
                }
            }
            prev = Some(m[i]);
        }
        i += 1;
    }
    Some(score)
}

/// lcskpp on K matches with symbolic sorted positions < P: returned chain valid, score = its LCSk++ score,
/// and no chain the solver can pick scores higher.
#[cfg(kani)]
pub fn lcskpp_opt<const K: usize, const KMER: usize, const P: u32>() {
    let mut m = [(0u32, 0u32); K];
    let mut i = 0;
    while i < K {
        m[i] = (kani::any(), kani::any());
        kani::assume(m[i].0 < P && m[i].1 < P);
        if i > 0 {
            kani::assume(m[i - 1] < m[i]);
        }
        i += 1;
    }
    let res = lcskpp(&m[..], KMER);
    // returned path: strictly increasing indices, valid chain, score matches
    let mut sel = [false; K];
    let mut last: Option<usize> = None;
    let mut j = 0;
    while j < res.path.len() {
        let idx = res.path[j];
        assert!(idx < K, "C19: path index out of range");
        if let Some(l) = last {
            assert!(idx > l, "C19: path indices not increasing");
        }
        sel[idx] = true;
        last = Some(idx);
        j += 1;
    }
    let sc = chain_ok_and_score(&m, &sel, KMER as u32);
    assert!(sc.is_some(), "C19: lcskpp returned an invalid chain");
    assert!(res.path.len() >= 1 && sc.unwrap() == res.score, "C19: lcskpp score differs from the score of the returned chain");
    // universal competitor
    let other: [bool; K] = kani::any();
    let mut any_sel = false;
    let mut i = 0;
    while i < K {
        any_sel = any_sel || other[i];
        i += 1;
    }
    kani::assume(any_sel);
    let osc = chain_ok_and_score(&m, &other, KMER as u32);
    kani::assume(osc.is_some());
    assert!(osc.unwrap() <= res.score, "C19: a competitor chain has a higher LCSk++ score");
    kani::cover!(res.path.len() >= 2, "chain of at least two matches");
    core::mem::forget(res);
}

/// sdpkpp / union: returned chain is valid over the given matches.
#[cfg(kani)]
pub fn sdpkpp_valid<const K: usize, const KMER: usize, const P: u32>() {
    let mut m = [(0u32, 0u32); K];
    let mut i = 0;
    while i < K {
        m[i] = (kani::any(), kani::any());
        kani::assume(m[i].0 < P && m[i].1 < P);
        if i > 0 {
            kani::assume(m[i - 1] < m[i]);
        }
        i += 1;
    }
    let go: i8 = kani::any();
    let ge: i8 = kani::any();
    kani::assume(go <= 0 && go >= -3 && ge <= 0 && ge >= -2);
    let res = sdpkpp(&m[..], KMER, 1, go as i32, ge as i32);
    let mut sel = [false; K];
    let mut last: Option<usize> = None;
    let mut j = 0;
    while j < res.path.len() {
        let idx = res.path[j];
        assert!(idx < K, "C19: path index out of range");
        if let Some(l) = last {
            assert!(idx > l, "C19: path indices not increasing");
        }
        sel[idx] = true;
        last = Some(idx);
        j += 1;
    }
    assert!(res.path.len() >= 1);
    assert!(chain_ok_and_score(&m, &sel, KMER as u32).is_some(), "C19: sdpkpp returned an invalid chain");
    kani::cover!(res.path.len() >= 2, "chain of at least two matches");
    core::mem::forget(res);
}

use crate::inst;
inst!(c19_qgrams_a1_q2_n3, 8, qgrams::<3, 2>(&[1]));
inst!(c19_qgrams_a2_q2_n4, 8, qgrams::<4, 2>(&[1, 2]));
inst!(c19_qgrams_a3_q2_n4, 8, qgrams::<4, 2>(&[1, 2, 3]));
inst!(c19_qgrams_a4_q3_n5, 8, qgrams::<5, 3>(&[1, 2, 3, 4]));
inst!(c19_qgrams_a5_q2_n4, 8, qgrams::<4, 2>(&[1, 2, 3, 4, 5]));
inst!(c19_qgrams_a4_q1_n3, 8, qgrams::<3, 1>(&[1, 2, 3, 4]));
inst!(c19_qgidx_a2_q2_n5, 12, qgram_index::<5, 2, false>(&[1, 2]));
inst!(c19_qgidx_a4_q2_n5, 20, qgram_index::<5, 2, false>(&[1, 2, 3, 4]));
inst!(c19_qgidx_a3_q2_n4, 20, qgram_index::<4, 2, false>(&[1, 2, 3]));
inst!(c19_qgidx_a3_q1_n4, 12, qgram_index::<4, 1, false>(&[1, 2, 3]));
inst!(c19_qgidx_a5_q2_n4, 70, qgram_index::<4, 2, false>(&[1, 2, 3, 4, 5]));
inst!(c19_qgidx_a2_q2_n5_masked, 12, qgram_index::<5, 2, true>(&[1, 2]));
inst!(c19_qgidx_a2_q3_n6, 12, qgram_index::<6, 3, false>(&[1, 2]));
inst!(c19_lcskpp_k2_m2_p4, 12, lcskpp_opt::<2, 2, 4>());
inst!(c19_lcskpp_k3_m2_p4, 14, lcskpp_opt::<3, 2, 4>());
inst!(c19_lcskpp_k3_m1_p3, 12, lcskpp_opt::<3, 1, 3>());
inst!(c19_sdpkpp_k2_m2_p4, 12, sdpkpp_valid::<2, 2, 4>());
inst!(c19_sdpkpp_k3_m2_p4, 14, sdpkpp_valid::<3, 2, 4>());
