//! C04 — BWT, less and Occ tables are exact; the BWT is invertible.
//! Oracles: the definitions (cyclic predecessor, counting loops).
use bio::alphabets::Alphabet;
use bio::data_structures::bwt::{bwt, invert_bwt, less, Occ};

/// N symbolic bytes, each drawn from the concrete candidate list `cand`.
#[cfg(kani)]
pub fn bytes_from<const N: usize>(cand: &[u8]) -> [u8; N] {
    let mut t = [0u8; N];
    let mut i = 0;
    while i < N {
        let k: usize = kani::any();
        kani::assume(k < cand.len());
        t[i] = cand[k];
        i += 1;
    }
    t
}

fn count_prefix<const N: usize>(b: &[u8; N], r: usize, c: u8) -> usize {
    let mut n = 0;
    let mut i = 0;
    while i < N {
        if i <= r && b[i] == c {
            n += 1;
        }
        i += 1;
    }
    n
}

/// Occ::get(bwt, r, c) == #{ i <= r : bwt[i] == c } for arbitrary byte strings over `cand` (not necessarily a BWT),
/// alphabet given by `alpha` (must contain every candidate except possibly '$'), sampling rate K.
#[cfg(kani)]
pub fn occ<const N: usize, const K: u32>(alpha: &[u8], cand: &[u8]) {
    let b = bytes_from::<N>(cand);
    let alphabet = Alphabet::new(alpha);
    let occ = Occ::new(&b[..], K, &alphabet);
    let r: usize = kani::any();
    kani::assume(r < N);
    let ci: usize = kani::any();
    kani::assume(ci < cand.len());
    let c = cand[ci];
    let got = occ.get(&b[..], r, c);
    let want = count_prefix(&b, r, c);
    assert!(got == want, "C04: Occ::get differs from the count of c in bwt[0..=r]");
    if K <= 64 {
        kani::cover!(want >= 2, "symbol occurs at least twice in the prefix");
        kani::cover!(want == 0 && r + 1 == N, "symbol absent from the whole string");
    }
    if K > 64 {
        let k = K as usize;
        let lo = r / k;
        let hi_exists = (lo + 1) * k < N;
        kani::cover!(hi_exists && want == count_prefix(&b, (lo + 1) * k, c) && want > 0, "k>64: equal checkpoints shortcut");
        kani::cover!(hi_exists && (lo + 1) * k - r < k / 2 && want != count_prefix(&b, (lo + 1) * k, c), "k>64: count backwards from the high checkpoint");
        kani::cover!(hi_exists && (lo + 1) * k - r >= k / 2 && want != count_prefix(&b, (lo + 1) * k, c), "k>64: fall through to the low checkpoint");
        kani::cover!(!hi_exists, "k>64: no high checkpoint");
    }
    core::mem::forget(occ);
}


/// k > 64 look-ahead branch with CONCRETE query rows (so that the slices handed to bytecount have concrete bounds) and all
/// bytes + the queried symbol symbolic.
#[cfg(kani)]
pub fn occ_rows<const N: usize, const K: u32>(alpha: &[u8], rows: &[usize]) {
    let b = bytes_from::<N>(alpha);
    let alphabet = Alphabet::new(alpha);
    let occ = Occ::new(&b[..], K, &alphabet);
    let ci: usize = kani::any();
    kani::assume(ci < alpha.len());
    let c = alpha[ci];
    let k = K as usize;
    let mut i = 0;
    while i < rows.len() {
        let r = rows[i];
        let got = occ.get(&b[..], r, c);
        let want = count_prefix(&b, r, c);
        assert!(got == want, "C04: Occ::get (k > 64) differs from the count of c in bwt[0..=r]");
        i += 1;
    }
    let hi = (rows[rows.len() - 1] / k + 1) * k;
    kani::cover!(hi < N && b[hi] == c, "queried symbol sits on the high checkpoint row");
    core::mem::forget(occ);
}

/// less(bytes, alphabet)[c] == #{ i : bytes[i] < c } for every c <= max_symbol + 1.
#[cfg(kani)]
pub fn less_table<const N: usize>(alpha: &[u8], cand: &[u8], max_symbol: u8) {
    let b = bytes_from::<N>(cand);
    let alphabet = Alphabet::new(alpha);
    let l = less(&b[..], &alphabet);
    assert!(l.len() == max_symbol as usize + 2);
    let c: usize = kani::any();
    kani::assume(c < l.len());
    let mut want = 0;
    let mut i = 0;
    while i < N {
        if (b[i] as usize) < c {
            want += 1;
        }
        i += 1;
    }
    assert!(l[c] == want, "C04: less[c] differs from the number of symbols smaller than c");
    kani::cover!(want > 0 && want < N, "non-trivial count");
    core::mem::forget(l);
}

/// bwt(text, pos)[r] is the symbol cyclically preceding position pos[r], for any pos with entries < n.
#[cfg(kani)]
pub fn bwt_def<const N: usize>() {
    let text: [u8; N] = kani::any();
    let mut pos = [0usize; N];
    let mut i = 0;
    while i < N {
        pos[i] = kani::any();
        kani::assume(pos[i] < N);
        i += 1;
    }
    let posv = pos.to_vec();
    let b = bwt(&text[..], &posv[..]);
    assert!(b.len() == N);
    let r: usize = kani::any();
    kani::assume(r < N);
    assert!(b[r] == text[(pos[r] + N - 1) % N], "C04: bwt[r] is not the cyclic predecessor of suffix pos[r]");
    kani::cover!(pos[r] == 0, "wrap-around row");
    core::mem::forget(b);
    core::mem::forget(posv);
}

/// Is suffix i of `t` lexicographically smaller than suffix j (i != j)? The text ends in a unique smallest sentinel,
/// so two different suffixes always differ before either runs off the end.
pub fn suffix_less<const N: usize>(t: &[u8; N], i: usize, j: usize) -> bool {
    let mut k = 0;
    while k < N {
        if i + k >= N {
            return true;
        }
        if j + k >= N {
            return false;
        }
        if t[i + k] != t[j + k] {
            return t[i + k] < t[j + k];
        }
        k += 1;
    }
    false
}

/// A symbolic array assumed to be THE suffix array of `t` (permutation, adjacent suffixes strictly increasing).
#[cfg(kani)]
pub fn assumed_sa<const N: usize>(t: &[u8; N]) -> [usize; N] {
    let mut sa = [0usize; N];
    let mut seen = [false; N];
    let mut i = 0;
    while i < N {
        sa[i] = kani::any();
        kani::assume(sa[i] < N);
        kani::assume(!seen[sa[i]]);
        seen[sa[i]] = true;
        if i > 0 {
            kani::assume(suffix_less(t, sa[i - 1], sa[i]));
        }
        i += 1;
    }
    sa
}

/// invert_bwt(bwt(text, sa)) == text for single-sentinel texts (N-1 symbols over {2,3,4}, then the sentinel 1).
#[cfg(kani)]
pub fn invert<const N: usize>() {
    let mut text = bytes_from::<N>(&[2, 3, 4]);
    text[N - 1] = 1;
    let sa = assumed_sa(&text);
    let sav = sa.to_vec();
    let b = bwt(&text[..], &sav[..]);
    let inv = invert_bwt(&b[..]);
    assert!(inv.len() == N);
    let i: usize = kani::any();
    kani::assume(i < N);
    assert!(inv[i] == text[i], "C04: invert_bwt(bwt(text)) differs from text");
    kani::cover!(N >= 3 && text[0] == text[1], "repeated symbol");
    core::mem::forget(b);
    core::mem::forget(inv);
    core::mem::forget(sav);
}

use crate::inst;
// Occ over small-valued alphabets (the table has max_symbol+1 inner Vecs; 68 of them exhaust memory, 4 do not)
inst!(c04_occ_n4_k1, 10, occ::<4, 1>(&[1, 2, 3], &[1, 2, 3]));
inst!(c04_occ_n4_k2, 10, occ::<4, 2>(&[1, 2, 3], &[1, 2, 3]));
inst!(c04_occ_n4_k3, 10, occ::<4, 3>(&[1, 2, 3], &[1, 2, 3]));
inst!(c04_occ_n4_k4, 10, occ::<4, 4>(&[1, 2, 3], &[1, 2, 3]));
inst!(c04_occ_n4_k5, 10, occ::<4, 5>(&[1, 2, 3], &[1, 2, 3]));
inst!(c04_occ_n4_k8, 10, occ::<4, 8>(&[1, 2, 3], &[1, 2, 3]));
inst!(c04_occ_n6_k1, 12, occ::<6, 1>(&[1, 2, 3], &[1, 2, 3]));
inst!(c04_occ_n6_k2, 12, occ::<6, 2>(&[1, 2, 3], &[1, 2, 3]));
inst!(c04_occ_n6_k3, 12, occ::<6, 3>(&[1, 2, 3], &[1, 2, 3]));
inst!(c04_occ_n6_k4, 12, occ::<6, 4>(&[1, 2, 3], &[1, 2, 3]));
inst!(c04_occ_n6_k5, 12, occ::<6, 5>(&[1, 2, 3], &[1, 2, 3]));
inst!(c04_occ_n6_k6, 12, occ::<6, 6>(&[1, 2, 3], &[1, 2, 3]));
inst!(c04_occ_n6_k7, 12, occ::<6, 7>(&[1, 2, 3], &[1, 2, 3]));
inst!(c04_occ_n6_k12, 12, occ::<6, 12>(&[1, 2, 3], &[1, 2, 3]));
inst!(c04_occ_n8_k1, 14, occ::<8, 1>(&[1, 2, 3], &[1, 2, 3]));
inst!(c04_occ_n8_k3, 14, occ::<8, 3>(&[1, 2, 3], &[1, 2, 3]));
inst!(c04_occ_n8_k5, 14, occ::<8, 5>(&[1, 2, 3], &[1, 2, 3]));
inst!(c04_occ_n8_k8, 14, occ::<8, 8>(&[1, 2, 3], &[1, 2, 3]));
inst!(c04_occ_n8_k16, 14, occ::<8, 16>(&[1, 2, 3], &[1, 2, 3]));
inst!(c04_occ_n10_k3, 16, occ::<10, 3>(&[1, 2, 3], &[1, 2, 3]));
inst!(c04_occ_n10_k7, 16, occ::<10, 7>(&[1, 2, 3], &[1, 2, 3]));
inst!(c04_occ_n12_k5, 18, occ::<12, 5>(&[1, 2, 3], &[1, 2, 3]));
inst!(c04_occ_dollar_added_n4_k2, 42, occ::<4, 2>(&[35, 37], &[35, 36, 37]));
inst!(c04_occ_dollar_member_n4_k2, 42, occ::<4, 2>(&[35, 36, 37], &[35, 36, 37]));
// k > 64: look-ahead checkpoint branch
inst!(c04_occ_n66_k65, 72, occ::<66, 65>(&[1, 2], &[1, 2]));
inst!(c04_occ_n131_k65, 137, occ::<131, 65>(&[1, 2], &[1, 2]));
inst!(c04_occ_n130_k66, 136, occ::<130, 66>(&[1, 2], &[1, 2]));
inst!(c04_occ_n131_k129, 137, occ::<131, 129>(&[1, 2], &[1, 2]));
inst!(c04_occ_n70_k140, 76, occ::<70, 140>(&[1, 2], &[1, 2]));
inst!(c04_occrows_n66_k65, 72, occ_rows::<66, 65>(&[1, 2], &[0, 31, 32, 33, 40, 64]));
inst!(c04_occrows_n67_k66, 73, occ_rows::<67, 66>(&[1, 2], &[1, 33, 34, 65]));
inst!(c04_occrows_n131_k65, 137, occ_rows::<131, 65>(&[1, 2], &[64, 65, 66, 100, 129]));
inst!(c04_less_n5_ac, 72, less_table::<5>(b"AC$", b"AC$", b'C'));
inst!(c04_less_n6_acg, 76, less_table::<6>(b"ACG", b"ACG$", b'G'));
inst!(c04_less_n6_small, 12, less_table::<6>(&[0, 1, 3], &[0, 1, 3], 3));
inst!(c04_less_n6_gap, 12, less_table::<6>(&[1, 2, 5], &[1, 2], 5));
inst!(c04_bwt_n1, 8, bwt_def::<1>());
inst!(c04_bwt_n4, 8, bwt_def::<4>());
inst!(c04_bwt_n6, 10, bwt_def::<6>());
inst!(c04_invert_n2, 12, invert::<2>());
inst!(c04_invert_n4, 12, invert::<4>());
inst!(c04_invert_n5, 12, invert::<5>());

#[cfg(kani)]
pub fn probe_alpha_collect() {
    let alphabet = Alphabet::new(b"AC");
    let alpha = alphabet.symbols.iter().collect::<Vec<usize>>();
    assert!(alpha.len() == 2);
    let x: u8 = kani::any();
    kani::cover!(alpha[0] == x as usize);
    core::mem::forget(alpha);
}
inst!(c04_probe_alpha_collect, 70, probe_alpha_collect());
