//! Shared helpers: symbolic arrays with a concrete shape.

/// `N` symbolic bytes, each assumed `< A` when `A < 256`.
#[cfg(kani)]
pub fn any_bytes<const N: usize, const A: u16>() -> [u8; N] {
    let a: [u8; N] = kani::any();
    if A < 256 {
        let mut i = 0;
        while i < N {
            kani::assume((a[i] as u16) < A);
            i += 1;
        }
    }
    a
}

/// Instantiate a generic harness function as a Kani proof harness.
#[macro_export]
macro_rules! inst {
    ($name:ident, $unwind:expr, $f:expr) => {
        #[cfg(kani)]
        #[kani::proof]
        #[kani::unwind($unwind)]
        pub fn $name() {
            $f
        }
    };
}
