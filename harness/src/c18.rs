//! C18 — bit-packed containers behave exactly like plain vectors.
//! Oracles: a fixed-size byte array + length (BitEnc, SmallInts), a fold over the update list (Fenwick).
use bio::data_structures::bit_tree::{FenwickTree, MaxBitTree, SumBitTree};
use bio::data_structures::bitenc::BitEnc;
use bio::data_structures::smallints::SmallInts;


/// One step of a BitEnc script. The *kind and count* of every step is concrete (so that every Vec shape is concrete and
/// CBMC's constant propagation resolves it); every stored value, every `set` index and the observed index are symbolic.
#[derive(Clone, Copy)]
pub enum Op {
    /// `push(v)` this many times, fresh symbolic v each time
    Push(usize),
    /// `push_values(n, v)` with this n, symbolic v
    Fill(usize),
    /// `set(i, v)` with symbolic i < len and symbolic v (skipped when empty)
    Set,
    /// `clear()`
    Clear,
}

/// Run every script in `scripts` on a fresh BitEnc of width W next to a `[u8; CAP]` vector model, then compare all observers.
#[cfg(kani)]
pub fn bitenc_scripts<const W: usize, const CAP: usize>(scripts: &[&[Op]]) {
    let mask: u8 = ((1u16 << W) - 1) as u8;
    let mut s = 0;
    while s < scripts.len() {
        let script = scripts[s];
        let mut be = BitEnc::new(W);
        let mut model = [0u8; CAP];
        let mut len = 0usize;
        let mut k = 0;
        while k < script.len() {
            match script[k] {
                Op::Push(cnt) => {
                    let mut a = 0;
                    while a < cnt {
                        let v: u8 = kani::any();
                        be.push(v);
                        model[len] = v & mask;
                        len += 1;
                        a += 1;
                    }
                }
                Op::Fill(n) => {
                    let v: u8 = kani::any();
                    be.push_values(n, v);
                    let mut j = 0;
                    while j < n {
                        model[len + j] = v & mask;
                        j += 1;
                    }
                    len += n;
                }
                Op::Set => {
                    if len > 0 {
                        let si: usize = kani::any();
                        let sv: u8 = kani::any();
                        kani::assume(si < len);
                        be.set(si, sv);
                        model[si] = sv & mask;
                    }
                }
                Op::Clear => {
                    be.clear();
                    len = 0;
                }
            }
            k += 1;
        }
        observe_bitenc::<W, CAP>(&be, &model, len);
        kani::cover!(s + 1 == scripts.len() && len > 0 && be.get(len - 1) == Some(mask), "last script reached; all-ones value stored last");
        core::mem::forget(be);
        s += 1;
    }
}

#[cfg(kani)]
fn observe_bitenc<const W: usize, const CAP: usize>(be: &BitEnc, model: &[u8; CAP], len: usize) {
    assert!(be.nr_symbols() == len, "C18: BitEnc length differs from the vector model");
    assert!(be.is_empty() == (len == 0));
    let per = (32 - 32 % W) / W;
    assert!(be.nr_blocks() == (len + per - 1) / per, "C18: block count inconsistent with length");
    let i: usize = kani::any();
    kani::assume(i <= CAP + 1);
    let got = be.get(i);
    if i < len {
        assert!(got == Some(model[i]), "C18: BitEnc::get differs from the vector model");
    } else {
        assert!(got.is_none(), "C18: out-of-range read must be None");
    }
    // iteration yields exactly `len` items equal to the model
    let mut it = be.iter();
    let mut k = 0;
    while k < CAP {
        let x = it.next();
        if k < len {
            assert!(x == Some(model[k]), "C18: BitEnc::iter differs from the vector model");
        } else {
            assert!(x.is_none(), "C18: BitEnc::iter yields too many items");
        }
        k += 1;
    }
    assert!(it.next().is_none());
}

/// Fenwick prefix sums: K symbolic point updates on a tree of LEN slots, symbolic query index.
#[cfg(kani)]
pub fn fenwick_sum<const LEN: usize, const K: usize>() {
    let mut t: SumBitTree<u32> = FenwickTree::new(LEN);
    let mut idx = [0usize; K];
    let mut val = [0u32; K];
    let mut j = 0;
    while j < K {
        idx[j] = kani::any();
        val[j] = kani::any();
        kani::assume(idx[j] < LEN && val[j] < (1 << 24));
        t.set(idx[j], val[j]);
        j += 1;
    }
    let q: usize = kani::any();
    kani::assume(q < LEN);
    let mut want = 0u32;
    let mut j = 0;
    while j < K {
        if idx[j] <= q {
            want += val[j];
        }
        j += 1;
    }
    assert!(t.get(q) == want, "C18: Fenwick prefix sum differs from the fold over all updates");
    kani::cover!(want > 0 && q + 1 < LEN, "non-trivial prefix");
    core::mem::forget(t);
}

#[cfg(kani)]
pub fn fenwick_max<const LEN: usize, const K: usize>() {
    let mut t: MaxBitTree<u32> = FenwickTree::new(LEN);
    let mut idx = [0usize; K];
    let mut val = [0u32; K];
    let mut j = 0;
    while j < K {
        idx[j] = kani::any();
        val[j] = kani::any();
        kani::assume(idx[j] < LEN);
        t.set(idx[j], val[j]);
        j += 1;
    }
    let q: usize = kani::any();
    kani::assume(q < LEN);
    let mut want = 0u32;
    let mut j = 0;
    while j < K {
        if idx[j] <= q && val[j] > want {
            want = val[j];
        }
        j += 1;
    }
    assert!(t.get(q) == want, "C18: Fenwick prefix maximum differs from the fold over all updates");
    kani::cover!(want > 0 && q + 1 < LEN, "non-trivial prefix");
    core::mem::forget(t);
}

#[cfg(kani)]
pub fn fenwick_max_pair<const LEN: usize, const K: usize>() {
    let mut t: MaxBitTree<(u32, u32)> = FenwickTree::new(LEN);
    let mut idx = [0usize; K];
    let mut val = [(0u32, 0u32); K];
    let mut j = 0;
    while j < K {
        idx[j] = kani::any();
        val[j] = (kani::any(), kani::any());
        kani::assume(idx[j] < LEN);
        t.set(idx[j], val[j]);
        j += 1;
    }
    let q: usize = kani::any();
    kani::assume(q < LEN);
    let mut want = (0u32, 0u32);
    let mut j = 0;
    while j < K {
        if idx[j] <= q && (val[j].0 > want.0 || (val[j].0 == want.0 && val[j].1 > want.1)) {
            want = val[j];
        }
        j += 1;
    }
    assert!(t.get(q) == want, "C18: Fenwick prefix maximum (pairs) differs from the fold over all updates");
    kani::cover!(want.0 > 0 && q + 1 < LEN, "non-trivial prefix");
    core::mem::forget(t);
}

/// SmallInts<i8, isize>: L symbolic ops among push(v) / set(i, v), values over the full isize range.
#[cfg(kani)]
pub fn smallints_i8<const L: usize>() {
    let mut s: SmallInts<i8, isize> = SmallInts::new();
    let mut model = [0isize; L];
    let mut len = 0usize;
    let mut big = false;
    let mut step = 0;
    while step < L {
        let op: bool = kani::any();
        let v: isize = kani::any();
        if v >= 127 {
            big = true;
        }
        if op || len == 0 {
            s.push(v);
            model[len] = v;
            len += 1;
        } else {
            let i: usize = kani::any();
            kani::assume(i < len);
            s.set(i, v);
            model[i] = v;
        }
        step += 1;
    }
    assert!(s.len() == len);
    let i: usize = kani::any();
    kani::assume(i <= L);
    let got = s.get(i);
    if i < len {
        assert!(got == Some(model[i]), "C18: SmallInts::get differs from the vector model");
    } else {
        assert!(got.is_none());
    }
    let mut it = s.iter();
    let mut k = 0;
    while k < L {
        let x = it.next();
        if k < len {
            assert!(x == Some(model[k]), "C18: SmallInts::iter differs from the vector model");
        } else {
            assert!(x.is_none());
        }
        k += 1;
    }
    kani::cover!(big && len >= 2, "a value that does not fit the small type was stored");
    core::mem::forget(s);
}

#[cfg(kani)]
pub fn smallints_from_elem<const N: usize>() {
    let v: i8 = kani::any();
    kani::assume(v < i8::MAX);
    let mut s: SmallInts<i8, isize> = SmallInts::from_elem(v, N);
    assert!(s.len() == N);
    let i: usize = kani::any();
    kani::assume(i < N);
    assert!(s.get(i) == Some(v as isize), "C18: from_elem element differs");
    let w: isize = kani::any();
    s.set(i, w);
    assert!(s.get(i) == Some(w), "C18: set after from_elem");
    let j: usize = kani::any();
    kani::assume(j < N && j != i);
    assert!(s.get(j) == Some(v as isize));
    kani::cover!(w > 1000, "big value");
    core::mem::forget(s);
}

use crate::inst;

inst!(c18_fenwick_sum_l5_k3, 8, fenwick_sum::<5, 3>());
inst!(c18_fenwick_sum_l8_k4, 11, fenwick_sum::<8, 4>());
inst!(c18_fenwick_max_l5_k3, 8, fenwick_max::<5, 3>());
inst!(c18_fenwick_max_l8_k4, 11, fenwick_max::<8, 4>());
inst!(c18_fenwick_maxpair_l5_k3, 8, fenwick_max_pair::<5, 3>());
inst!(c18_fenwick_maxpair_l8_k4, 11, fenwick_max_pair::<8, 4>());
inst!(c18_fenwick_sum_l1_k2, 4, fenwick_sum::<1, 2>());

inst!(c18_smallints_i8_l2, 5, smallints_i8::<2>());
inst!(c18_smallints_i8_l3, 6, smallints_i8::<3>());
inst!(c18_smallints_from_elem_n3, 6, smallints_from_elem::<3>());



inst!(c18_bitenc_fill_w1, 101, bitenc_scripts::<1, 98>(&[&[Op::Push(1), Op::Fill(0), Op::Push(1), Op::Set], &[Op::Push(1), Op::Fill(1), Op::Push(1), Op::Set], &[Op::Push(1), Op::Fill(2), Op::Push(1), Op::Set], &[Op::Push(1), Op::Fill(30), Op::Push(1), Op::Set], &[Op::Push(1), Op::Fill(31), Op::Push(1), Op::Set], &[Op::Push(1), Op::Fill(32), Op::Push(1), Op::Set], &[Op::Push(1), Op::Fill(33), Op::Push(1), Op::Set], &[Op::Push(1), Op::Fill(63), Op::Push(1), Op::Set], &[Op::Push(1), Op::Fill(65), Op::Push(1), Op::Set], &[Op::Push(31), Op::Fill(0), Op::Push(1), Op::Set], &[Op::Push(31), Op::Fill(1), Op::Push(1), Op::Set], &[Op::Push(31), Op::Fill(2), Op::Push(1), Op::Set], &[Op::Push(31), Op::Fill(30), Op::Push(1), Op::Set], &[Op::Push(31), Op::Fill(31), Op::Push(1), Op::Set], &[Op::Push(31), Op::Fill(32), Op::Push(1), Op::Set], &[Op::Push(31), Op::Fill(33), Op::Push(1), Op::Set], &[Op::Push(31), Op::Fill(63), Op::Push(1), Op::Set], &[Op::Push(31), Op::Fill(65), Op::Push(1), Op::Set], &[Op::Push(32), Op::Fill(0), Op::Push(1), Op::Set], &[Op::Push(32), Op::Fill(1), Op::Push(1), Op::Set], &[Op::Push(32), Op::Fill(2), Op::Push(1), Op::Set], &[Op::Push(32), Op::Fill(30), Op::Push(1), Op::Set], &[Op::Push(32), Op::Fill(31), Op::Push(1), Op::Set], &[Op::Push(32), Op::Fill(32), Op::Push(1), Op::Set], &[Op::Push(32), Op::Fill(33), Op::Push(1), Op::Set], &[Op::Push(32), Op::Fill(63), Op::Push(1), Op::Set], &[Op::Push(32), Op::Fill(65), Op::Push(1), Op::Set]]));
inst!(c18_bitenc_hist_w1, 103, bitenc_scripts::<1, 100>(&[&[Op::Fill(33), Op::Set, Op::Push(2)], &[Op::Push(33), Op::Clear, Op::Push(1), Op::Fill(32), Op::Push(1)], &[Op::Push(1), Op::Fill(1), Op::Fill(32), Op::Set, Op::Push(1)], &[Op::Fill(2), Op::Clear], &[Op::Push(2), Op::Set, Op::Fill(64), Op::Clear, Op::Fill(3), Op::Set]]));
inst!(c18_bitenc_fill_w2, 53, bitenc_scripts::<2, 50>(&[&[Op::Push(1), Op::Fill(0), Op::Push(1), Op::Set], &[Op::Push(1), Op::Fill(1), Op::Push(1), Op::Set], &[Op::Push(1), Op::Fill(2), Op::Push(1), Op::Set], &[Op::Push(1), Op::Fill(14), Op::Push(1), Op::Set], &[Op::Push(1), Op::Fill(15), Op::Push(1), Op::Set], &[Op::Push(1), Op::Fill(16), Op::Push(1), Op::Set], &[Op::Push(1), Op::Fill(17), Op::Push(1), Op::Set], &[Op::Push(1), Op::Fill(31), Op::Push(1), Op::Set], &[Op::Push(1), Op::Fill(33), Op::Push(1), Op::Set], &[Op::Push(15), Op::Fill(0), Op::Push(1), Op::Set], &[Op::Push(15), Op::Fill(1), Op::Push(1), Op::Set], &[Op::Push(15), Op::Fill(2), Op::Push(1), Op::Set], &[Op::Push(15), Op::Fill(14), Op::Push(1), Op::Set], &[Op::Push(15), Op::Fill(15), Op::Push(1), Op::Set], &[Op::Push(15), Op::Fill(16), Op::Push(1), Op::Set], &[Op::Push(15), Op::Fill(17), Op::Push(1), Op::Set], &[Op::Push(15), Op::Fill(31), Op::Push(1), Op::Set], &[Op::Push(15), Op::Fill(33), Op::Push(1), Op::Set], &[Op::Push(16), Op::Fill(0), Op::Push(1), Op::Set], &[Op::Push(16), Op::Fill(1), Op::Push(1), Op::Set], &[Op::Push(16), Op::Fill(2), Op::Push(1), Op::Set], &[Op::Push(16), Op::Fill(14), Op::Push(1), Op::Set], &[Op::Push(16), Op::Fill(15), Op::Push(1), Op::Set], &[Op::Push(16), Op::Fill(16), Op::Push(1), Op::Set], &[Op::Push(16), Op::Fill(17), Op::Push(1), Op::Set], &[Op::Push(16), Op::Fill(31), Op::Push(1), Op::Set], &[Op::Push(16), Op::Fill(33), Op::Push(1), Op::Set]]));
inst!(c18_bitenc_hist_w2, 55, bitenc_scripts::<2, 52>(&[&[Op::Fill(17), Op::Set, Op::Push(2)], &[Op::Push(17), Op::Clear, Op::Push(1), Op::Fill(16), Op::Push(1)], &[Op::Push(1), Op::Fill(1), Op::Fill(16), Op::Set, Op::Push(1)], &[Op::Fill(2), Op::Clear], &[Op::Push(2), Op::Set, Op::Fill(32), Op::Clear, Op::Fill(3), Op::Set]]));
inst!(c18_bitenc_fill_w3, 35, bitenc_scripts::<3, 32>(&[&[Op::Push(1), Op::Fill(0), Op::Push(1), Op::Set], &[Op::Push(1), Op::Fill(1), Op::Push(1), Op::Set], &[Op::Push(1), Op::Fill(2), Op::Push(1), Op::Set], &[Op::Push(1), Op::Fill(8), Op::Push(1), Op::Set], &[Op::Push(1), Op::Fill(9), Op::Push(1), Op::Set], &[Op::Push(1), Op::Fill(10), Op::Push(1), Op::Set], &[Op::Push(1), Op::Fill(11), Op::Push(1), Op::Set], &[Op::Push(1), Op::Fill(19), Op::Push(1), Op::Set], &[Op::Push(1), Op::Fill(21), Op::Push(1), Op::Set], &[Op::Push(9), Op::Fill(0), Op::Push(1), Op::Set], &[Op::Push(9), Op::Fill(1), Op::Push(1), Op::Set], &[Op::Push(9), Op::Fill(2), Op::Push(1), Op::Set], &[Op::Push(9), Op::Fill(8), Op::Push(1), Op::Set], &[Op::Push(9), Op::Fill(9), Op::Push(1), Op::Set], &[Op::Push(9), Op::Fill(10), Op::Push(1), Op::Set], &[Op::Push(9), Op::Fill(11), Op::Push(1), Op::Set], &[Op::Push(9), Op::Fill(19), Op::Push(1), Op::Set], &[Op::Push(9), Op::Fill(21), Op::Push(1), Op::Set], &[Op::Push(10), Op::Fill(0), Op::Push(1), Op::Set], &[Op::Push(10), Op::Fill(1), Op::Push(1), Op::Set], &[Op::Push(10), Op::Fill(2), Op::Push(1), Op::Set], &[Op::Push(10), Op::Fill(8), Op::Push(1), Op::Set], &[Op::Push(10), Op::Fill(9), Op::Push(1), Op::Set], &[Op::Push(10), Op::Fill(10), Op::Push(1), Op::Set], &[Op::Push(10), Op::Fill(11), Op::Push(1), Op::Set], &[Op::Push(10), Op::Fill(19), Op::Push(1), Op::Set], &[Op::Push(10), Op::Fill(21), Op::Push(1), Op::Set]]));
inst!(c18_bitenc_hist_w3, 37, bitenc_scripts::<3, 34>(&[&[Op::Fill(11), Op::Set, Op::Push(2)], &[Op::Push(11), Op::Clear, Op::Push(1), Op::Fill(10), Op::Push(1)], &[Op::Push(1), Op::Fill(1), Op::Fill(10), Op::Set, Op::Push(1)], &[Op::Fill(2), Op::Clear], &[Op::Push(2), Op::Set, Op::Fill(20), Op::Clear, Op::Fill(3), Op::Set]]));
inst!(c18_bitenc_fill_w4, 30, bitenc_scripts::<4, 26>(&[&[Op::Push(1), Op::Fill(0), Op::Push(1), Op::Set], &[Op::Push(1), Op::Fill(1), Op::Push(1), Op::Set], &[Op::Push(1), Op::Fill(2), Op::Push(1), Op::Set], &[Op::Push(1), Op::Fill(6), Op::Push(1), Op::Set], &[Op::Push(1), Op::Fill(7), Op::Push(1), Op::Set], &[Op::Push(1), Op::Fill(8), Op::Push(1), Op::Set], &[Op::Push(1), Op::Fill(9), Op::Push(1), Op::Set], &[Op::Push(1), Op::Fill(15), Op::Push(1), Op::Set], &[Op::Push(1), Op::Fill(17), Op::Push(1), Op::Set], &[Op::Push(7), Op::Fill(0), Op::Push(1), Op::Set], &[Op::Push(7), Op::Fill(1), Op::Push(1), Op::Set], &[Op::Push(7), Op::Fill(2), Op::Push(1), Op::Set], &[Op::Push(7), Op::Fill(6), Op::Push(1), Op::Set], &[Op::Push(7), Op::Fill(7), Op::Push(1), Op::Set], &[Op::Push(7), Op::Fill(8), Op::Push(1), Op::Set], &[Op::Push(7), Op::Fill(9), Op::Push(1), Op::Set], &[Op::Push(7), Op::Fill(15), Op::Push(1), Op::Set], &[Op::Push(7), Op::Fill(17), Op::Push(1), Op::Set], &[Op::Push(8), Op::Fill(0), Op::Push(1), Op::Set], &[Op::Push(8), Op::Fill(1), Op::Push(1), Op::Set], &[Op::Push(8), Op::Fill(2), Op::Push(1), Op::Set], &[Op::Push(8), Op::Fill(6), Op::Push(1), Op::Set], &[Op::Push(8), Op::Fill(7), Op::Push(1), Op::Set], &[Op::Push(8), Op::Fill(8), Op::Push(1), Op::Set], &[Op::Push(8), Op::Fill(9), Op::Push(1), Op::Set], &[Op::Push(8), Op::Fill(15), Op::Push(1), Op::Set], &[Op::Push(8), Op::Fill(17), Op::Push(1), Op::Set]]));
inst!(c18_bitenc_hist_w4, 31, bitenc_scripts::<4, 28>(&[&[Op::Fill(9), Op::Set, Op::Push(2)], &[Op::Push(9), Op::Clear, Op::Push(1), Op::Fill(8), Op::Push(1)], &[Op::Push(1), Op::Fill(1), Op::Fill(8), Op::Set, Op::Push(1)], &[Op::Fill(2), Op::Clear], &[Op::Push(2), Op::Set, Op::Fill(16), Op::Clear, Op::Fill(3), Op::Set]]));
inst!(c18_bitenc_fill_w5, 30, bitenc_scripts::<5, 20>(&[&[Op::Push(1), Op::Fill(0), Op::Push(1), Op::Set], &[Op::Push(1), Op::Fill(1), Op::Push(1), Op::Set], &[Op::Push(1), Op::Fill(2), Op::Push(1), Op::Set], &[Op::Push(1), Op::Fill(4), Op::Push(1), Op::Set], &[Op::Push(1), Op::Fill(5), Op::Push(1), Op::Set], &[Op::Push(1), Op::Fill(6), Op::Push(1), Op::Set], &[Op::Push(1), Op::Fill(7), Op::Push(1), Op::Set], &[Op::Push(1), Op::Fill(11), Op::Push(1), Op::Set], &[Op::Push(1), Op::Fill(13), Op::Push(1), Op::Set], &[Op::Push(5), Op::Fill(0), Op::Push(1), Op::Set], &[Op::Push(5), Op::Fill(1), Op::Push(1), Op::Set], &[Op::Push(5), Op::Fill(2), Op::Push(1), Op::Set], &[Op::Push(5), Op::Fill(4), Op::Push(1), Op::Set], &[Op::Push(5), Op::Fill(5), Op::Push(1), Op::Set], &[Op::Push(5), Op::Fill(6), Op::Push(1), Op::Set], &[Op::Push(5), Op::Fill(7), Op::Push(1), Op::Set], &[Op::Push(5), Op::Fill(11), Op::Push(1), Op::Set], &[Op::Push(5), Op::Fill(13), Op::Push(1), Op::Set], &[Op::Push(6), Op::Fill(0), Op::Push(1), Op::Set], &[Op::Push(6), Op::Fill(1), Op::Push(1), Op::Set], &[Op::Push(6), Op::Fill(2), Op::Push(1), Op::Set], &[Op::Push(6), Op::Fill(4), Op::Push(1), Op::Set], &[Op::Push(6), Op::Fill(5), Op::Push(1), Op::Set], &[Op::Push(6), Op::Fill(6), Op::Push(1), Op::Set], &[Op::Push(6), Op::Fill(7), Op::Push(1), Op::Set], &[Op::Push(6), Op::Fill(11), Op::Push(1), Op::Set], &[Op::Push(6), Op::Fill(13), Op::Push(1), Op::Set]]));
inst!(c18_bitenc_hist_w5, 25, bitenc_scripts::<5, 22>(&[&[Op::Fill(7), Op::Set, Op::Push(2)], &[Op::Push(7), Op::Clear, Op::Push(1), Op::Fill(6), Op::Push(1)], &[Op::Push(1), Op::Fill(1), Op::Fill(6), Op::Set, Op::Push(1)], &[Op::Fill(2), Op::Clear], &[Op::Push(2), Op::Set, Op::Fill(12), Op::Clear, Op::Fill(3), Op::Set]]));
inst!(c18_bitenc_fill_w6, 30, bitenc_scripts::<6, 17>(&[&[Op::Push(1), Op::Fill(0), Op::Push(1), Op::Set], &[Op::Push(1), Op::Fill(1), Op::Push(1), Op::Set], &[Op::Push(1), Op::Fill(2), Op::Push(1), Op::Set], &[Op::Push(1), Op::Fill(3), Op::Push(1), Op::Set], &[Op::Push(1), Op::Fill(4), Op::Push(1), Op::Set], &[Op::Push(1), Op::Fill(5), Op::Push(1), Op::Set], &[Op::Push(1), Op::Fill(6), Op::Push(1), Op::Set], &[Op::Push(1), Op::Fill(9), Op::Push(1), Op::Set], &[Op::Push(1), Op::Fill(11), Op::Push(1), Op::Set], &[Op::Push(4), Op::Fill(0), Op::Push(1), Op::Set], &[Op::Push(4), Op::Fill(1), Op::Push(1), Op::Set], &[Op::Push(4), Op::Fill(2), Op::Push(1), Op::Set], &[Op::Push(4), Op::Fill(3), Op::Push(1), Op::Set], &[Op::Push(4), Op::Fill(4), Op::Push(1), Op::Set], &[Op::Push(4), Op::Fill(5), Op::Push(1), Op::Set], &[Op::Push(4), Op::Fill(6), Op::Push(1), Op::Set], &[Op::Push(4), Op::Fill(9), Op::Push(1), Op::Set], &[Op::Push(4), Op::Fill(11), Op::Push(1), Op::Set], &[Op::Push(5), Op::Fill(0), Op::Push(1), Op::Set], &[Op::Push(5), Op::Fill(1), Op::Push(1), Op::Set], &[Op::Push(5), Op::Fill(2), Op::Push(1), Op::Set], &[Op::Push(5), Op::Fill(3), Op::Push(1), Op::Set], &[Op::Push(5), Op::Fill(4), Op::Push(1), Op::Set], &[Op::Push(5), Op::Fill(5), Op::Push(1), Op::Set], &[Op::Push(5), Op::Fill(6), Op::Push(1), Op::Set], &[Op::Push(5), Op::Fill(9), Op::Push(1), Op::Set], &[Op::Push(5), Op::Fill(11), Op::Push(1), Op::Set]]));
inst!(c18_bitenc_hist_w6, 22, bitenc_scripts::<6, 19>(&[&[Op::Fill(6), Op::Set, Op::Push(2)], &[Op::Push(6), Op::Clear, Op::Push(1), Op::Fill(5), Op::Push(1)], &[Op::Push(1), Op::Fill(1), Op::Fill(5), Op::Set, Op::Push(1)], &[Op::Fill(2), Op::Clear], &[Op::Push(2), Op::Set, Op::Fill(10), Op::Clear, Op::Fill(3), Op::Set]]));
inst!(c18_bitenc_fill_w7, 27, bitenc_scripts::<7, 14>(&[&[Op::Push(1), Op::Fill(0), Op::Push(1), Op::Set], &[Op::Push(1), Op::Fill(1), Op::Push(1), Op::Set], &[Op::Push(1), Op::Fill(2), Op::Push(1), Op::Set], &[Op::Push(1), Op::Fill(3), Op::Push(1), Op::Set], &[Op::Push(1), Op::Fill(4), Op::Push(1), Op::Set], &[Op::Push(1), Op::Fill(5), Op::Push(1), Op::Set], &[Op::Push(1), Op::Fill(7), Op::Push(1), Op::Set], &[Op::Push(1), Op::Fill(9), Op::Push(1), Op::Set], &[Op::Push(3), Op::Fill(0), Op::Push(1), Op::Set], &[Op::Push(3), Op::Fill(1), Op::Push(1), Op::Set], &[Op::Push(3), Op::Fill(2), Op::Push(1), Op::Set], &[Op::Push(3), Op::Fill(3), Op::Push(1), Op::Set], &[Op::Push(3), Op::Fill(4), Op::Push(1), Op::Set], &[Op::Push(3), Op::Fill(5), Op::Push(1), Op::Set], &[Op::Push(3), Op::Fill(7), Op::Push(1), Op::Set], &[Op::Push(3), Op::Fill(9), Op::Push(1), Op::Set], &[Op::Push(4), Op::Fill(0), Op::Push(1), Op::Set], &[Op::Push(4), Op::Fill(1), Op::Push(1), Op::Set], &[Op::Push(4), Op::Fill(2), Op::Push(1), Op::Set], &[Op::Push(4), Op::Fill(3), Op::Push(1), Op::Set], &[Op::Push(4), Op::Fill(4), Op::Push(1), Op::Set], &[Op::Push(4), Op::Fill(5), Op::Push(1), Op::Set], &[Op::Push(4), Op::Fill(7), Op::Push(1), Op::Set], &[Op::Push(4), Op::Fill(9), Op::Push(1), Op::Set]]));
inst!(c18_bitenc_hist_w7, 19, bitenc_scripts::<7, 16>(&[&[Op::Fill(5), Op::Set, Op::Push(2)], &[Op::Push(5), Op::Clear, Op::Push(1), Op::Fill(4), Op::Push(1)], &[Op::Push(1), Op::Fill(1), Op::Fill(4), Op::Set, Op::Push(1)], &[Op::Fill(2), Op::Clear], &[Op::Push(2), Op::Set, Op::Fill(8), Op::Clear, Op::Fill(3), Op::Set]]));
inst!(c18_bitenc_fill_w8, 27, bitenc_scripts::<8, 14>(&[&[Op::Push(1), Op::Fill(0), Op::Push(1), Op::Set], &[Op::Push(1), Op::Fill(1), Op::Push(1), Op::Set], &[Op::Push(1), Op::Fill(2), Op::Push(1), Op::Set], &[Op::Push(1), Op::Fill(3), Op::Push(1), Op::Set], &[Op::Push(1), Op::Fill(4), Op::Push(1), Op::Set], &[Op::Push(1), Op::Fill(5), Op::Push(1), Op::Set], &[Op::Push(1), Op::Fill(7), Op::Push(1), Op::Set], &[Op::Push(1), Op::Fill(9), Op::Push(1), Op::Set], &[Op::Push(3), Op::Fill(0), Op::Push(1), Op::Set], &[Op::Push(3), Op::Fill(1), Op::Push(1), Op::Set], &[Op::Push(3), Op::Fill(2), Op::Push(1), Op::Set], &[Op::Push(3), Op::Fill(3), Op::Push(1), Op::Set], &[Op::Push(3), Op::Fill(4), Op::Push(1), Op::Set], &[Op::Push(3), Op::Fill(5), Op::Push(1), Op::Set], &[Op::Push(3), Op::Fill(7), Op::Push(1), Op::Set], &[Op::Push(3), Op::Fill(9), Op::Push(1), Op::Set], &[Op::Push(4), Op::Fill(0), Op::Push(1), Op::Set], &[Op::Push(4), Op::Fill(1), Op::Push(1), Op::Set], &[Op::Push(4), Op::Fill(2), Op::Push(1), Op::Set], &[Op::Push(4), Op::Fill(3), Op::Push(1), Op::Set], &[Op::Push(4), Op::Fill(4), Op::Push(1), Op::Set], &[Op::Push(4), Op::Fill(5), Op::Push(1), Op::Set], &[Op::Push(4), Op::Fill(7), Op::Push(1), Op::Set], &[Op::Push(4), Op::Fill(9), Op::Push(1), Op::Set]]));
inst!(c18_bitenc_hist_w8, 19, bitenc_scripts::<8, 16>(&[&[Op::Fill(5), Op::Set, Op::Push(2)], &[Op::Push(5), Op::Clear, Op::Push(1), Op::Fill(4), Op::Push(1)], &[Op::Push(1), Op::Fill(1), Op::Fill(4), Op::Set, Op::Push(1)], &[Op::Fill(2), Op::Clear], &[Op::Push(2), Op::Set, Op::Fill(8), Op::Clear, Op::Fill(3), Op::Set]]));
