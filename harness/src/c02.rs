//! C02 — banded alignment is sound, and exact whenever the band covers the matrix.
//! Reuses C01's oracles (universal competitor, path walk + re-score) on `banded::Aligner`.
use bio::alignment::pairwise::banded;
use bio::alignment::pairwise::MIN_SCORE;
use bio::alignment::{Alignment, AlignmentMode};

use crate::c01::{path_valid, scoring_of, Params};
#[cfg(kani)]
use crate::c01::{any_params, competitor_bound};

/// Full band (k longer than both sequences => no k-mer can match => band = whole matrix): score == unbanded optimum,
/// path valid. ENTRY: 0 custom, 1 global, 2 semiglobal, 3 local.
#[cfg(kani)]
pub fn full_band<const M: usize, const N: usize, const L: usize, const MASK: u8, const ENTRY: u8>() {
    let p = any_params::<MASK, 4>();
    let x: [u8; M] = kani::any();
    let y: [u8; N] = kani::any();
    let k = M + N + 1;
    let w: usize = kani::any();
    kani::assume(w <= 2);
    let mut al = banded::Aligner::with_capacity_and_scoring(M, N, scoring_of(p), k, w);
    let (a, eff, kept) = match ENTRY {
        0 => (al.custom(&x[..], &y[..]), p.clip, true),
        1 => (al.global(&x[..], &y[..]), [MIN_SCORE; 4], true),
        2 => (al.semiglobal(&x[..], &y[..]), [MIN_SCORE, MIN_SCORE, 0, 0], false),
        _ => (al.local(&x[..], &y[..]), [0; 4], false),
    };
    let pe = Params { clip: eff, ..p };
    path_valid(&pe, &x, &y, &a, kept);
    competitor_bound::<M, N, L>(&pe, &x, &y, a.score);
    kani::cover!(a.operations.len() >= 1 && a.score > 0, "positive-score alignment");
    core::mem::forget(al);
    core::mem::forget(a);
}

/// Explicit backbone: K real k-mer matches (symbolic, sorted positions; assumed to be genuine matches of x and y — the
/// documented precondition): terminates (unwinding assertions), path valid, score == re-scored path; hence never above optimum.
#[cfg(kani)]
pub fn with_matches<const M: usize, const N: usize, const K: usize, const KMER: usize, const MASK: u8>() {
    let p = any_params::<MASK, 4>();
    let x: [u8; M] = kani::any();
    let y: [u8; N] = kani::any();
    let mut ms = [(0u32, 0u32); K];
    let mut i = 0;
    while i < K {
        ms[i] = (kani::any(), kani::any());
        let (a, b) = (ms[i].0 as usize, ms[i].1 as usize);
        kani::assume(a + KMER <= M && b + KMER <= N);
        let mut j = 0;
        while j < KMER {
            kani::assume(x[a + j] == y[b + j]);
            j += 1;
        }
        if i > 0 {
            kani::assume(ms[i - 1] < ms[i]);
        }
        i += 1;
    }
    let w: usize = kani::any();
    kani::assume(w <= 1);
    let mut al = banded::Aligner::with_capacity_and_scoring(M, N, scoring_of(p), KMER, w);
    let a = al.custom_with_matches(&x[..], &y[..], &ms[..]);
    path_valid(&p, &x, &y, &a, true);
    kani::cover!(a.operations.len() >= 2, "path of at least two operations");
    core::mem::forget(al);
    core::mem::forget(a);
}

use crate::inst;
inst!(c02_full_custom_1x1_k15, 6, full_band::<1, 1, 2, 15, 0>());
inst!(c02_full_custom_2x2_k15, 8, full_band::<2, 2, 4, 15, 0>());
inst!(c02_full_custom_2x2_k0, 8, full_band::<2, 2, 4, 0, 0>());
inst!(c02_full_custom_2x2_k6, 8, full_band::<2, 2, 4, 6, 0>());
inst!(c02_full_custom_2x2_k9, 8, full_band::<2, 2, 4, 9, 0>());
inst!(c02_full_global_2x2, 8, full_band::<2, 2, 4, 15, 1>());
inst!(c02_full_semiglobal_2x2, 8, full_band::<2, 2, 4, 15, 2>());
inst!(c02_full_local_2x2, 8, full_band::<2, 2, 4, 15, 3>());
inst!(c02_full_global_1x2, 7, full_band::<1, 2, 3, 0, 1>());
inst!(c02_full_local_2x1, 7, full_band::<2, 1, 3, 0, 3>());
inst!(c02_full_custom_3x3_k15, 10, full_band::<3, 3, 6, 15, 0>());
inst!(c02_matches_2x2_k1_m1, 10, with_matches::<2, 2, 1, 1, 15>());
inst!(c02_matches_3x3_k2_m1, 12, with_matches::<3, 3, 1, 2, 15>());
inst!(c02_matches_3x3_k1_m2, 12, with_matches::<3, 3, 2, 1, 15>());
inst!(c02_matches_3x3_k1_m2_k0, 12, with_matches::<3, 3, 2, 1, 0>());
// empty sequences (the property quantifies over bytes*, including empty)
inst!(c02_full_custom_0x0_k15, 6, full_band::<0, 0, 1, 15, 0>());
inst!(c02_full_global_0x0, 6, full_band::<0, 0, 1, 0, 1>());
inst!(c02_full_custom_0x2_k15, 7, full_band::<0, 2, 2, 15, 0>());
inst!(c02_full_custom_2x0_k15, 7, full_band::<2, 0, 2, 15, 0>());
inst!(c02_full_global_0x2, 7, full_band::<0, 2, 2, 0, 1>());
inst!(c02_full_local_0x2, 7, full_band::<0, 2, 2, 0, 3>());

/// Full band, concrete scoring scheme (see c01::SCHEMES), symbolic clips per MASK and symbolic sequences.
#[cfg(kani)]
pub fn full_band_fixed<const M: usize, const N: usize, const L: usize, const MASK: u8, const SCHEME: usize, const ENTRY: u8, const CANARY: bool>() {
    let p = crate::c01::fixed_params::<MASK>(SCHEME);
    let x: [u8; M] = kani::any();
    let y: [u8; N] = kani::any();
    let mut al = banded::Aligner::with_capacity_and_scoring(M, N, scoring_of(p), M + N + 1, 0);
    let (a, eff, kept) = match ENTRY {
        0 => (al.custom(&x[..], &y[..]), p.clip, true),
        1 => (al.global(&x[..], &y[..]), [MIN_SCORE; 4], true),
        2 => (al.semiglobal(&x[..], &y[..]), [MIN_SCORE, MIN_SCORE, 0, 0], false),
        _ => (al.local(&x[..], &y[..]), [0; 4], false),
    };
    let pe = Params { clip: eff, ..p };
    path_valid(&pe, &x, &y, &a, kept);
    competitor_bound::<M, N, L>(&pe, &x, &y, a.score);
    // no kani::cover! here: the extra solver call for a cover witness exhausts memory at this size; vacuity is guarded by the
    // canary instance below (same harness, final assert!(false) must be refuted)
    if CANARY {
        assert!(a.score == MIN_SCORE + 12345, "canary: must be refuted");
    }
    core::mem::forget(al);
    core::mem::forget(a);
}
inst!(c02_fixed_custom_1x1_k15_s0, 6, full_band_fixed::<1, 1, 2, 15, 0, 0, false>());
inst!(c02_fixed_custom_1x1_k8_s0, 6, full_band_fixed::<1, 1, 2, 8, 0, 0, false>());
inst!(c02_fixed_global_1x2_s1, 7, full_band_fixed::<1, 2, 3, 0, 1, 1, false>());
inst!(c02_fixed_local_2x2_s0, 14, full_band_fixed::<2, 2, 4, 0, 0, 3, false>());
inst!(c02_fixed_custom_2x2_k15_s0, 14, full_band_fixed::<2, 2, 4, 15, 0, 0, false>());
inst!(c02_fixed_global_0x2_s0, 7, full_band_fixed::<0, 2, 2, 0, 0, 1, false>());
inst!(c02_fixed_custom_1x1_k8_s0_canary, 6, full_band_fixed::<1, 1, 2, 8, 0, 0, true>());
inst!(c02_fixed_semiglobal_1x1_s0, 6, full_band_fixed::<1, 1, 2, 0, 0, 2, false>());
