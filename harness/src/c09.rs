//! C09 — approximate matchers and distance functions equal the edit-distance definition.
//! Oracle: textbook column-wise dynamic programming (semi-global: free start in the text), written from the
//! recurrence, sharing no code with the bit-parallel implementations.
use bio::alignment::distance;
use bio::pattern_matching::myers::{long, Myers};
use bio::pattern_matching::ukkonen::Ukkonen;

#[cfg(kani)]
use crate::util::any_bytes;

/// dist[j] = min edit distance between `p` and any substring of `t` ending at t[j] (inclusive), unit costs.
pub fn semiglobal_dp<const M: usize, const M1: usize, const N: usize>(p: &[u8; M], t: &[u8; N]) -> [usize; N] {
    let mut out = [0usize; N];
    let mut col = [0usize; M1];
    let mut i = 0;
    while i < M1 {
        col[i] = i;
        i += 1;
    }
    let mut j = 0;
    while j < N {
        let mut diag = col[0]; // D[i-1][j-1]
        col[0] = 0;
        let mut i = 1;
        while i < M1 {
            let up = col[i - 1] + 1; // D[i-1][j] + 1 (pattern symbol unmatched)
            let left = col[i] + 1; // D[i][j-1] + 1 (text symbol unmatched)
            let sub = diag + (p[i - 1] != t[j]) as usize;
            diag = col[i];
            let mut best = up;
            if left < best {
                best = left;
            }
            if sub < best {
                best = sub;
            }
            col[i] = best;
            i += 1;
        }
        out[j] = col[M];
        j += 1;
    }
    out
}

macro_rules! myers_simple {
    ($fname:ident, $T:ty) => {
        /// Myers (single machine word): find_all_end, distance, find_best_end vs the DP, pattern M, text N, k symbolic.
        #[cfg(kani)]
        pub fn $fname<const M: usize, const M1: usize, const N: usize, const A: u16>() {
            let p = any_bytes::<M, A>();
            let t = any_bytes::<N, A>();
            let k: u8 = kani::any();
            kani::assume(k as usize <= M + 1);
            let want = semiglobal_dp::<M, M1, N>(&p, &t);
            let my = Myers::<$T>::new(p.iter());
            let mut it = my.find_all_end(t.iter(), k);
            let mut hits = 0;
            let mut best = usize::MAX;
            let mut best_end = 0;
            let mut j = 0;
            while j < N {
                if want[j] <= k as usize {
                    let got = it.next();
                    assert!(got == Some((j, want[j] as u8)), "C09: Myers::find_all_end differs from the edit-distance DP");
                    hits += 1;
                }
                if want[j] < best {
                    best = want[j];
                    best_end = j;
                }
                j += 1;
            }
            assert!(it.next().is_none(), "C09: Myers::find_all_end reports a spurious hit");
            assert!(my.distance(t.iter()) as usize == best, "C09: Myers::distance is not the minimum over all end positions");
            assert!(my.find_best_end(t.iter()) == (best_end, best as u8), "C09: Myers::find_best_end is not the first best end");
            if M > 1 {
                kani::cover!(hits >= 1 && best > 0 && (k as usize) < M, "approximate (non-exact) hit within k");
            } else {
                kani::cover!(hits >= 1, "hit");
            }
            kani::cover!(hits == 0, "no hit");
            core::mem::forget(my);
        }
    };
}
myers_simple!(myers_u8, u8);
myers_simple!(myers_u16, u16);
myers_simple!(myers_u32, u32);
myers_simple!(myers_u64, u64);

/// Block-based Myers over u8 words (patterns longer than one word), find_all_end + distance + find_best_end.
#[cfg(kani)]
pub fn myers_long_u8<const M: usize, const M1: usize, const N: usize, const A: u16>() {
    let p = any_bytes::<M, A>();
    let t = any_bytes::<N, A>();
    let k: usize = kani::any();
    kani::assume(k <= M + 1);
    let want = semiglobal_dp::<M, M1, N>(&p, &t);
    let my = long::Myers::<u8>::new(p.iter());
    let mut it = my.find_all_end(t.iter(), k);
    let mut hits = 0;
    let mut j = 0;
    while j < N {
        if want[j] <= k {
            let got = it.next();
            assert!(got == Some((j, want[j])), "C09: long::Myers::find_all_end differs from the edit-distance DP");
            hits += 1;
        }
        j += 1;
    }
    assert!(it.next().is_none(), "C09: long::Myers::find_all_end reports a spurious hit");
    kani::cover!(hits >= 1, "a hit");
    kani::cover!(hits == 0, "no hit");
    core::mem::forget(my);
}

/// Block-based Myers: distance() and find_best_end() (internally max_dist = usize::MAX).
#[cfg(kani)]
pub fn myers_long_u8_distance<const M: usize, const M1: usize, const N: usize, const A: u16>() {
    let p = any_bytes::<M, A>();
    let t = any_bytes::<N, A>();
    let want = semiglobal_dp::<M, M1, N>(&p, &t);
    let my = long::Myers::<u8>::new(p.iter());
    let mut best = usize::MAX;
    let mut best_end = 0;
    let mut j = 0;
    while j < N {
        if want[j] < best {
            best = want[j];
            best_end = j;
        }
        j += 1;
    }
    assert!(my.distance(t.iter()) == best, "C09: long::Myers::distance is not the minimum over all end positions");
    assert!(my.find_best_end(t.iter()) == (best_end, best), "C09: long::Myers::find_best_end is not the first best end");
    kani::cover!(best < M, "some symbol matches");
    core::mem::forget(my);
}

/// Ukkonen with an arbitrary cost table over symbol classes (byte & 1), values in {0,1,2}; oracle = weighted DP.
#[cfg(kani)]
pub fn ukkonen<const M: usize, const M1: usize, const N: usize, const UNIT: bool>() {
    let p: [u8; M] = kani::any();
    let t: [u8; N] = kani::any();
    let table: [[u8; 2]; 2] = kani::any();
    kani::assume(table[0][0] <= 2 && table[0][1] <= 2 && table[1][0] <= 2 && table[1][1] <= 2);
    let cost = move |a: u8, b: u8| -> u32 {
        if UNIT {
            (a != b) as u32
        } else {
            table[(a & 1) as usize][(b & 1) as usize] as u32
        }
    };
    let k: usize = kani::any();
    kani::assume(k <= M + 2);
    // weighted semiglobal DP
    let mut want = [0usize; N];
    let mut col = [0usize; M1];
    let mut i = 0;
    while i < M1 {
        col[i] = i;
        i += 1;
    }
    let mut j = 0;
    while j < N {
        let mut diag = col[0];
        col[0] = 0;
        let mut i = 1;
        while i < M1 {
            let up = col[i - 1] + 1;
            let left = col[i] + 1;
            let sub = diag + cost(p[i - 1], t[j]) as usize;
            diag = col[i];
            let mut best = up;
            if left < best {
                best = left;
            }
            if sub < best {
                best = sub;
            }
            col[i] = best;
            i += 1;
        }
        want[j] = col[M];
        j += 1;
    }
    let mut u = Ukkonen::with_capacity(M, cost);
    let mut hits = 0;
    {
        let mut it = u.find_all_end(&p[..], t.iter(), k);
        let mut j = 0;
        while j < N {
            if want[j] <= k {
                let got = it.next();
                assert!(got == Some((j, want[j])), "C09: Ukkonen::find_all_end differs from the (weighted) edit-distance DP");
                hits += 1;
            }
            j += 1;
        }
        assert!(it.next().is_none(), "C09: Ukkonen::find_all_end reports a spurious hit");
    }
    kani::cover!(hits >= 1 && k < M, "hit within k < m");
    kani::cover!(hits == 0, "no hit");
    core::mem::forget(u);
}

/// One Ukkonen object, two searches (different text, different k): second answer independent of the first.
#[cfg(kani)]
pub fn ukkonen_reuse<const M: usize, const M1: usize, const N: usize>() {
    let p: [u8; M] = kani::any();
    let t1: [u8; N] = kani::any();
    let t2: [u8; N] = kani::any();
    let k1: usize = kani::any();
    let k2: usize = kani::any();
    kani::assume(k1 <= M + 1 && k2 <= M + 1);
    let want = semiglobal_dp::<M, M1, N>(&p, &t2);
    let mut u = Ukkonen::with_capacity(M, |a: u8, b: u8| (a != b) as u32);
    {
        let mut it = u.find_all_end(&p[..], t1.iter(), k1);
        let _ = it.next();
        let _ = it.next();
    }
    let mut hits = 0;
    {
        let mut it = u.find_all_end(&p[..], t2.iter(), k2);
        let mut j = 0;
        while j < N {
            if want[j] <= k2 {
                assert!(it.next() == Some((j, want[j])), "C09: reused Ukkonen differs from the DP");
                hits += 1;
            }
            j += 1;
        }
        assert!(it.next().is_none());
    }
    kani::cover!(hits >= 1 && k1 != k2, "hit on second search with a different k");
    core::mem::forget(u);
}

/// global (Levenshtein) distance DP
pub fn lev_dp<const A: usize, const A1: usize, const B: usize>(a: &[u8; A], b: &[u8; B]) -> usize {
    let mut col = [0usize; A1];
    let mut i = 0;
    while i < A1 {
        col[i] = i;
        i += 1;
    }
    let mut j = 0;
    while j < B {
        let mut diag = col[0];
        col[0] = j + 1;
        let mut i = 1;
        while i < A1 {
            let up = col[i - 1] + 1;
            let left = col[i] + 1;
            let sub = diag + (a[i - 1] != b[j]) as usize;
            diag = col[i];
            let mut best = up;
            if left < best {
                best = left;
            }
            if sub < best {
                best = sub;
            }
            col[i] = best;
            i += 1;
        }
        j += 1;
    }
    col[A]
}

#[cfg(kani)]
pub fn distances<const A: usize, const A1: usize, const B: usize>() {
    let a: [u8; A] = kani::any();
    let b: [u8; B] = kani::any();
    let want = lev_dp::<A, A1, B>(&a, &b);
    assert!(distance::levenshtein(&a[..], &b[..]) as usize == want, "C09: levenshtein differs from the DP");
    let k: u32 = kani::any();
    kani::assume(k <= (A + B + 1) as u32);
    let got = distance::simd::bounded_levenshtein(&a[..], &b[..], k);
    if want as u32 <= k {
        assert!(got == Some(want as u32), "C09: bounded_levenshtein must return the distance when it is within the bound");
    } else {
        assert!(got.is_none(), "C09: bounded_levenshtein must return None when the distance exceeds the bound");
    }
    if A == B {
        let mut h = 0u64;
        let mut i = 0;
        while i < A && i < B {
            if a[i] != b[i] {
                h += 1;
            }
            i += 1;
        }
        assert!(distance::hamming(&a[..], &b[..]) == h, "C09: hamming differs from the mismatch count");
    }
    kani::cover!(want >= 2 && (want as u32) <= k, "distance at least 2 within bound");
    kani::cover!((want as u32) > k, "distance exceeds bound");
}

use crate::inst;
inst!(c09_myers_u8_m1_n3, 8, myers_u8::<1, 2, 3, 256>());
inst!(c09_myers_u8_m3_n4, 8, myers_u8::<3, 4, 4, 256>());
inst!(c09_myers_u8_m3_n5_a3, 9, myers_u8::<3, 4, 5, 3>());
inst!(c09_myers_u8_m7_n3_a2, 11, myers_u8::<7, 8, 3, 2>());
inst!(c09_myers_u8_m8_n3_a2, 12, myers_u8::<8, 9, 3, 2>());
inst!(c09_myers_u16_m3_n4, 8, myers_u16::<3, 4, 4, 256>());
inst!(c09_myers_u16_m16_n3_a2, 20, myers_u16::<16, 17, 3, 2>());
inst!(c09_myers_u32_m3_n4, 8, myers_u32::<3, 4, 4, 256>());
inst!(c09_myers_u32_m32_n2_a2, 36, myers_u32::<32, 33, 2, 2>());
inst!(c09_myers_u64_m3_n4, 8, myers_u64::<3, 4, 4, 256>());
inst!(c09_myers_u64_m63_n2_a2, 67, myers_u64::<63, 64, 2, 2>());
inst!(c09_myers_u64_m64_n2_a2, 68, myers_u64::<64, 65, 2, 2>());
inst!(c09_long_u8_m9_n1_a2, 13, myers_long_u8::<9, 10, 1, 2>());
inst!(c09_long_u8_m9_n2_a2, 13, myers_long_u8::<9, 10, 2, 2>());
inst!(c09_long_u8_m3_n3_a2, 8, myers_long_u8::<3, 4, 3, 2>());
inst!(c09_long_u8_dist_m9_n1_a2, 13, myers_long_u8_distance::<9, 10, 1, 2>());
inst!(c09_long_u8_dist_m9_n2_a2, 13, myers_long_u8_distance::<9, 10, 2, 2>());
inst!(c09_long_u8_dist_m3_n2_a2, 8, myers_long_u8_distance::<3, 4, 2, 2>());
inst!(c09_ukkonen_m2_n3_unit, 8, ukkonen::<2, 3, 3, true>());
inst!(c09_ukkonen_m3_n4_unit, 8, ukkonen::<3, 4, 4, true>());
inst!(c09_ukkonen_m2_n3_cost, 8, ukkonen::<2, 3, 3, false>());
inst!(c09_ukkonen_m3_n4_cost, 8, ukkonen::<3, 4, 4, false>());
inst!(c09_ukkonen_reuse_m2_n3, 8, ukkonen_reuse::<2, 3, 3>());
inst!(c09_dist_a2_b2, 8, distances::<2, 3, 2>());
inst!(c09_dist_a3_b3, 8, distances::<3, 4, 3>());
inst!(c09_dist_a2_b3, 8, distances::<2, 3, 3>());
inst!(c09_dist_a3_b1, 8, distances::<3, 4, 1>());
inst!(c09_dist_a4_b4, 9, distances::<4, 5, 4>());

/// Text wildcard through MyersBuilder (no ambiguity codes, so the builder's HashMap stays empty): a text symbol 'N'
/// matches every pattern symbol. Pattern over {A,C} (M symbols, may fill the whole word), text over {A,C,N}.
#[cfg(kani)]
pub fn myers_u8_wildcard<const M: usize, const M1: usize, const N: usize>() {
    use bio::pattern_matching::myers::MyersBuilder;
    let p = crate::c09::sym_over::<M>(b"AC");
    let t = crate::c09::sym_over::<N>(b"ACN");
    let k: u8 = kani::any();
    kani::assume(k as usize <= M);
    // DP with wildcard-aware equality
    let mut want = [0usize; N];
    let mut col = [0usize; M1];
    let mut i = 0;
    while i < M1 {
        col[i] = i;
        i += 1;
    }
    let mut j = 0;
    while j < N {
        let mut diag = col[0];
        col[0] = 0;
        let mut i = 1;
        while i < M1 {
            let up = col[i - 1] + 1;
            let left = col[i] + 1;
            let sub = diag + (p[i - 1] != t[j] && t[j] != b'N') as usize;
            diag = col[i];
            let mut best = up;
            if left < best {
                best = left;
            }
            if sub < best {
                best = sub;
            }
            col[i] = best;
            i += 1;
        }
        want[j] = col[M];
        j += 1;
    }
    let mut b = MyersBuilder::new();
    b.text_wildcard(b'N');
    let my: Myers<u8> = b.build(p.iter());
    let mut it = my.find_all_end(t.iter(), k);
    let mut hits = 0;
    let mut j = 0;
    while j < N {
        if want[j] <= k as usize {
            assert!(it.next() == Some((j, want[j] as u8)), "C09: Myers with text wildcard differs from the wildcard-aware DP");
            hits += 1;
        }
        j += 1;
    }
    assert!(it.next().is_none(), "C09: spurious hit");
    kani::cover!(hits >= 1 && t[N - 1] == b'N', "hit ending at a wildcard");
    core::mem::forget(my);
    core::mem::forget(b);
}

#[cfg(kani)]
pub fn sym_over<const N: usize>(alpha: &[u8]) -> [u8; N] {
    let mut t = [0u8; N];
    let mut i = 0;
    while i < N {
        let k: usize = kani::any();
        kani::assume(k < alpha.len());
        t[i] = alpha[k];
        i += 1;
    }
    t
}
inst!(c09_myers_u8_wild_m3_n3, 8, myers_u8_wildcard::<3, 4, 3>());
inst!(c09_myers_u8_wild_m8_n3, 12, myers_u8_wildcard::<8, 9, 3>());
