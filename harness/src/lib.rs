//! Kani proof harnesses over the real rust-bio code (path dependency on /repo).
//! Every harness is a plain `pub fn` so that a solver counterexample can be replayed natively
//! through `kani::concrete_playback_run` (see /verif/check, step "replay").
#![allow(clippy::all)]
#![allow(dead_code)]
#![allow(unused_imports)]

pub mod util;

#[cfg(any(feature = "c01", feature = "c02"))]
pub mod c01;
#[cfg(feature = "c02")]
pub mod c02;
#[cfg(feature = "c03")]
pub mod c03;
#[cfg(any(feature = "c03", feature = "c04", feature = "c05", feature = "c19"))]
pub mod c04;
#[cfg(feature = "c05")]
pub mod c05;
#[cfg(feature = "c08")]
pub mod c08;
#[cfg(feature = "c09")]
pub mod c09;
#[cfg(feature = "c15")]
pub mod c15;
#[cfg(feature = "c17")]
pub mod c17;
#[cfg(feature = "c18")]
pub mod c18;
#[cfg(feature = "c19")]
pub mod c19;
#[cfg(feature = "c20")]
pub mod c20;

#[cfg(kani)]
#[path = "gen_playback.rs"]
mod gen_playback;
