//! Kani proof harnesses over the real rust-bio code (path dependency on /repo).
//! Every harness is a plain `pub fn` so that a solver counterexample can be replayed natively
//! through `kani::concrete_playback_run` (see /verif/check, step "replay").
#![allow(clippy::all)]
#![allow(dead_code)]
#![allow(unused_imports)]

pub mod util;

#[cfg(feature = "c08")]
pub mod c08;
#[cfg(feature = "c17")]
pub mod c17;
#[cfg(feature = "c18")]
pub mod c18;
#[cfg(feature = "c20")]
pub mod c20;

#[cfg(kani)]
#[path = "gen_playback.rs"]
mod gen_playback;
