//! C01 — pairwise alignment is optimal and its reported path achieves the reported score.
//! Oracle (a): a universally quantified competitor alignment — the solver picks ANY sub-ranges and ANY operation
//! string; its score under the documented model must not exceed the reported score.
//! Oracle (b): the reported operations are walked against x and y and re-scored from the documented model.
//! (a) + (b) => reported score == optimum and the reported path attains it.
use bio::alignment::pairwise::{Aligner, MatchFunc, Scoring, MIN_SCORE};
use bio::alignment::{Alignment, AlignmentMode, AlignmentOperation};

#[derive(Clone, Copy)]
pub struct Params {
    pub table: [[i32; 2]; 2],
    pub gap_open: i32,
    pub gap_extend: i32,
    /// xclip_prefix, xclip_suffix, yclip_prefix, yclip_suffix  (MIN_SCORE = disabled)
    pub clip: [i32; 4],
}

impl Params {
    pub fn f(&self, a: u8, b: u8) -> i32 {
        self.table[(a & 1) as usize][(b & 1) as usize]
    }
}

/// Symbolic scoring scheme: arbitrary (asymmetric) 2x2 substitution table on symbol classes (byte & 1) with entries in
/// [-LIM, LIM], gap_open/extend in [-LIM, 0], each clip enabled according to MASK bit (value in [-LIM, 0]) or MIN_SCORE.
#[cfg(kani)]
pub fn any_params<const MASK: u8, const LIM: i32>() -> Params {
    let mut table = [[0i32; 2]; 2];
    let mut a = 0;
    while a < 2 {
        let mut b = 0;
        while b < 2 {
            let v: i8 = kani::any();
            kani::assume(v as i32 >= -LIM && v as i32 <= LIM);
            table[a][b] = v as i32;
            b += 1;
        }
        a += 1;
    }
    let go: i8 = kani::any();
    let ge: i8 = kani::any();
    kani::assume(go as i32 >= -LIM && go <= 0 && ge as i32 >= -LIM && ge <= 0);
    let mut clip = [MIN_SCORE; 4];
    let mut c = 0;
    while c < 4 {
        if MASK & (1 << c) != 0 {
            let v: i8 = kani::any();
            kani::assume(v as i32 >= -LIM && v <= 0);
            clip[c] = v as i32;
        }
        c += 1;
    }
    Params { table, gap_open: go as i32, gap_extend: ge as i32, clip }
}

pub fn scoring_of(p: Params) -> Scoring<impl Fn(u8, u8) -> i32 + Copy> {
    let t = p.table;
    let mut s = Scoring::new(p.gap_open, p.gap_extend, move |a: u8, b: u8| t[(a & 1) as usize][(b & 1) as usize]);
    s.xclip_prefix = p.clip[0];
    s.xclip_suffix = p.clip[1];
    s.yclip_prefix = p.clip[2];
    s.yclip_suffix = p.clip[3];
    s
}

/// clip penalty of the four ends given the aligned sub-ranges; None if a disabled end would be clipped
pub fn clip_total(p: &Params, m: usize, n: usize, a0: usize, a1: usize, b0: usize, b1: usize) -> Option<i32> {
    let mut total = 0i32;
    let nonempty = [a0 > 0, a1 < m, b0 > 0, b1 < n];
    let mut c = 0;
    while c < 4 {
        if nonempty[c] {
            if p.clip[c] == MIN_SCORE {
                return None;
            }
            total += p.clip[c];
        }
        c += 1;
    }
    Some(total)
}

/// (a) upper bound by a universal witness. L = M + N is the longest possible op string.
#[cfg(kani)]
pub fn competitor_bound<const M: usize, const N: usize, const L: usize>(p: &Params, x: &[u8; M], y: &[u8; N], reported: i32) {
    let a0: usize = kani::any();
    let a1: usize = kani::any();
    let b0: usize = kani::any();
    let b1: usize = kani::any();
    kani::assume(a0 <= a1 && a1 <= M && b0 <= b1 && b1 <= N);
    let clips = clip_total(p, M, N, a0, a1, b0, b1);
    kani::assume(clips.is_some());
    let mut score = clips.unwrap();
    let (mut i, mut j) = (a0, b0);
    let mut prev: u8 = 0; // 0 = match/none, 1 = ins, 2 = del
    let mut k = 0;
    while k < L {
        let op: u8 = kani::any(); // 0 M/S, 1 Ins (consumes x), 2 Del (consumes y), 3 = nothing
        kani::assume(op <= 3);
        if op == 0 {
            kani::assume(i < a1 && j < b1);
            score += p.f(x[i], y[j]);
            i += 1;
            j += 1;
            prev = 0;
        } else if op == 1 {
            kani::assume(i < a1);
            score += if prev == 1 { p.gap_extend } else { p.gap_open + p.gap_extend };
            i += 1;
            prev = 1;
        } else if op == 2 {
            kani::assume(j < b1);
            score += if prev == 2 { p.gap_extend } else { p.gap_open + p.gap_extend };
            j += 1;
            prev = 2;
        }
        k += 1;
    }
    kani::assume(i == a1 && j == b1);
    assert!(score <= reported, "C01: a competitor alignment scores higher than the reported optimum");
}

/// (b) the reported path is a real alignment of the reported sub-ranges and re-scores to the reported score.
/// `clips_kept`: custom mode keeps Xclip/Yclip operations; the standard modes filter them.
pub fn path_valid<const M: usize, const N: usize>(p: &Params, x: &[u8; M], y: &[u8; N], al: &Alignment, clips_kept: bool) {
    assert!(al.xlen == M && al.ylen == N, "C01: xlen/ylen wrong");
    assert!(al.xstart <= al.xend && al.xend <= M && al.ystart <= al.yend && al.yend <= N, "C01: coordinates out of range");
    let clips = clip_total(p, M, N, al.xstart, al.xend, al.ystart, al.yend);
    assert!(clips.is_some(), "C01: a disabled end was clipped");
    let mut score = clips.unwrap();
    let (mut i, mut j) = (al.xstart, al.ystart);
    let mut prev: u8 = 0;
    let (mut xpre, mut xsuf, mut ypre, mut ysuf) = (0usize, 0usize, 0usize, 0usize);
    let mut k = 0;
    while k < al.operations.len() {
        match al.operations[k] {
            AlignmentOperation::Match | AlignmentOperation::Subst => {
                assert!(i < al.xend && j < al.yend, "C01: path leaves the reported sub-ranges");
                let is_match = al.operations[k] == AlignmentOperation::Match;
                assert!((x[i] == y[j]) == is_match, "C01: Match/Subst label contradicts the symbols");
                score += p.f(x[i], y[j]);
                i += 1;
                j += 1;
                prev = 0;
            }
            AlignmentOperation::Ins => {
                assert!(i < al.xend, "C01: path leaves the reported x range");
                score += if prev == 1 { p.gap_extend } else { p.gap_open + p.gap_extend };
                i += 1;
                prev = 1;
            }
            AlignmentOperation::Del => {
                assert!(j < al.yend, "C01: path leaves the reported y range");
                score += if prev == 2 { p.gap_extend } else { p.gap_open + p.gap_extend };
                j += 1;
                prev = 2;
            }
            AlignmentOperation::Xclip(l) => {
                assert!(clips_kept, "C01: clip operation left in a filtered alignment");
                if l == 0 {
                    // a zero-length clip consumes nothing and costs nothing under the documented model: tolerated anywhere
                } else if i == al.xstart && xpre == 0 && al.xstart > 0 && l == al.xstart && xsuf == 0 {
                    // prefix clip of x: before any symbol of x is consumed (its position relative to y's operations is a
                    // matter of representation, e.g. [Yclip(1), Ins] for "y clipped as suffix, x inserted")
                    xpre = l;
                } else {
                    assert!(i == al.xend, "C01: x clip in the middle of the aligned x range");
                    xsuf += l;
                }
            }
            AlignmentOperation::Yclip(l) => {
                assert!(clips_kept, "C01: clip operation left in a filtered alignment");
                if l == 0 {
                } else if j == al.ystart && ypre == 0 && al.ystart > 0 && l == al.ystart && ysuf == 0 {
                    ypre = l;
                } else {
                    assert!(j == al.yend, "C01: y clip in the middle of the aligned y range");
                    ysuf += l;
                }
            }
        }
        k += 1;
    }
    assert!(i == al.xend && j == al.yend, "C01: path does not consume exactly the reported sub-ranges");
    if clips_kept {
        assert!(xpre == al.xstart && ypre == al.ystart, "C01: prefix clip lengths do not add up to the unaligned prefix");
        assert!(xsuf == M - al.xend && ysuf == N - al.yend, "C01: suffix clip lengths do not add up to the unaligned suffix");
    }
    assert!(score == al.score, "C01: recomputed score of the reported path differs from the reported score");
}

/// Same checks as `path_valid`, walking a fixed-size copy of the operations (padding = zero-length clips, which are ignored).
pub fn path_valid_bounded<const M: usize, const N: usize, const LMAX: usize>(p: &Params, x: &[u8; M], y: &[u8; N], al: &Alignment, clips_kept: bool) {
    assert!(al.xlen == M && al.ylen == N, "C01: xlen/ylen wrong");
    assert!(al.xstart <= al.xend && al.xend <= M && al.ystart <= al.yend && al.yend <= N, "C01: coordinates out of range");
    let clips = clip_total(p, M, N, al.xstart, al.xend, al.ystart, al.yend);
    assert!(clips.is_some(), "C01: a disabled end was clipped");
    let mut score = clips.unwrap();
    let (mut i, mut j) = (al.xstart, al.ystart);
    let mut prev: u8 = 0;
    let (mut xpre, mut xsuf, mut ypre, mut ysuf) = (0usize, 0usize, 0usize, 0usize);
    // at most M + N aligned operations and four clips can occur: copy them into a fixed array first, so that the walk
    // itself runs over a constant-size buffer (walking the Vec of symbolic length directly exhausts memory from 2x2 on)
    let nops = al.operations.len();
    assert!(nops <= LMAX, "C01: more operations than M + N + 4");
    let mut ops = [AlignmentOperation::Xclip(0); LMAX];
    let mut c = 0;
    while c < LMAX {
        if c < nops {
            ops[c] = al.operations[c];
        }
        c += 1;
    }
    let mut k = 0;
    while k < LMAX {
        match ops[k] {
            AlignmentOperation::Match | AlignmentOperation::Subst => {
                assert!(i < al.xend && j < al.yend, "C01: path leaves the reported sub-ranges");
                let is_match = al.operations[k] == AlignmentOperation::Match;
                assert!((x[i] == y[j]) == is_match, "C01: Match/Subst label contradicts the symbols");
                score += p.f(x[i], y[j]);
                i += 1;
                j += 1;
                prev = 0;
            }
            AlignmentOperation::Ins => {
                assert!(i < al.xend, "C01: path leaves the reported x range");
                score += if prev == 1 { p.gap_extend } else { p.gap_open + p.gap_extend };
                i += 1;
                prev = 1;
            }
            AlignmentOperation::Del => {
                assert!(j < al.yend, "C01: path leaves the reported y range");
                score += if prev == 2 { p.gap_extend } else { p.gap_open + p.gap_extend };
                j += 1;
                prev = 2;
            }
            AlignmentOperation::Xclip(l) => {
                assert!(clips_kept, "C01: clip operation left in a filtered alignment");
                if l == 0 {
                    // a zero-length clip consumes nothing and costs nothing under the documented model: tolerated anywhere
                } else if i == al.xstart && xpre == 0 && al.xstart > 0 && l == al.xstart && xsuf == 0 {
                    // prefix clip of x: before any symbol of x is consumed (its position relative to y's operations is a
                    // matter of representation, e.g. [Yclip(1), Ins] for "y clipped as suffix, x inserted")
                    xpre = l;
                } else {
                    assert!(i == al.xend, "C01: x clip in the middle of the aligned x range");
                    xsuf += l;
                }
            }
            AlignmentOperation::Yclip(l) => {
                assert!(clips_kept, "C01: clip operation left in a filtered alignment");
                if l == 0 {
                } else if j == al.ystart && ypre == 0 && al.ystart > 0 && l == al.ystart && ysuf == 0 {
                    ypre = l;
                } else {
                    assert!(j == al.yend, "C01: y clip in the middle of the aligned y range");
                    ysuf += l;
                }
            }
        }
        k += 1;
    }
    assert!(i == al.xend && j == al.yend, "C01: path does not consume exactly the reported sub-ranges");
    if clips_kept {
        assert!(xpre == al.xstart && ypre == al.ystart, "C01: prefix clip lengths do not add up to the unaligned prefix");
        assert!(xsuf == M - al.xend && ysuf == N - al.yend, "C01: suffix clip lengths do not add up to the unaligned suffix");
    }
    assert!(score == al.score, "C01: recomputed score of the reported path differs from the reported score");
}

/// custom(): optimal + achievable, one call on a fresh aligner.
#[cfg(kani)]
pub fn custom<const M: usize, const N: usize, const L: usize, const MASK: u8>() {
    let p = any_params::<MASK, 4>();
    let x: [u8; M] = kani::any();
    let y: [u8; N] = kani::any();
    let mut al = Aligner::with_capacity_and_scoring(M, N, scoring_of(p));
    let a = al.custom(&x[..], &y[..]);
    assert!(a.mode == AlignmentMode::Custom);
    path_valid(&p, &x, &y, &a, true);
    competitor_bound::<M, N, L>(&p, &x, &y, a.score);
    kani::cover!(a.operations.len() >= 1 && a.score > 0, "positive-score alignment");
    core::mem::forget(al);
    core::mem::forget(a);
}

/// global / semiglobal / local: same optimum as the corresponding clip setting, clips filtered, and the aligner's own clip
/// penalties restored (observed through a following custom() call == fresh aligner's custom()).
/// MODE: 0 global, 1 semiglobal, 2 local.
#[cfg(kani)]
pub fn mode<const M: usize, const N: usize, const L: usize, const MASK: u8, const MODE: u8>() {
    let p = any_params::<MASK, 4>();
    let x: [u8; M] = kani::any();
    let y: [u8; N] = kani::any();
    let mut al = Aligner::with_capacity_and_scoring(M, N, scoring_of(p));
    let (a, eff) = match MODE {
        0 => (al.global(&x[..], &y[..]), [MIN_SCORE; 4]),
        1 => (al.semiglobal(&x[..], &y[..]), [MIN_SCORE, MIN_SCORE, 0, 0]),
        _ => (al.local(&x[..], &y[..]), [0; 4]),
    };
    let pe = Params { clip: eff, ..p };
    let want_mode = match MODE {
        0 => AlignmentMode::Global,
        1 => AlignmentMode::Semiglobal,
        _ => AlignmentMode::Local,
    };
    assert!(a.mode == want_mode, "C01: wrong mode label");
    path_valid(&pe, &x, &y, &a, MODE == 0);
    competitor_bound::<M, N, L>(&pe, &x, &y, a.score);
    if MODE == 0 {
        assert!(a.xstart == 0 && a.ystart == 0 && a.xend == M && a.yend == N, "C01: global alignment must span both sequences");
    }
    if MODE == 1 {
        assert!(a.xstart == 0 && a.xend == M, "C01: semiglobal alignment must span x");
    }
    // the aligner's own clip penalties are unaffected: a following custom() behaves like a fresh aligner's custom()
    let b = al.custom(&x[..], &y[..]);
    path_valid(&p, &x, &y, &b, true);
    competitor_bound::<M, N, L>(&p, &x, &y, b.score);
    kani::cover!(a.score != b.score, "mode and custom scores differ");
    core::mem::forget(al);
    core::mem::forget(a);
    core::mem::forget(b);
}

/// history independence: custom(x1,y1) at shape (M1,N1), then custom at (M,N) must still be optimal + valid.
#[cfg(kani)]
pub fn reuse<const M1: usize, const N1: usize, const M: usize, const N: usize, const L: usize, const MASK: u8>() {
    let p = any_params::<MASK, 4>();
    let x1: [u8; M1] = kani::any();
    let y1: [u8; N1] = kani::any();
    let x: [u8; M] = kani::any();
    let y: [u8; N] = kani::any();
    let mut al = Aligner::with_capacity_and_scoring(1, 1, scoring_of(p));
    let a1 = al.custom(&x1[..], &y1[..]);
    core::mem::forget(a1);
    let a = al.custom(&x[..], &y[..]);
    path_valid(&p, &x, &y, &a, true);
    competitor_bound::<M, N, L>(&p, &x, &y, a.score);
    kani::cover!(a.operations.len() >= 1, "non-empty path");
    core::mem::forget(al);
    core::mem::forget(a);
}

use crate::inst;
macro_rules! custom_all_masks {
    ($m:literal, $n:literal, $l:literal, $unw:literal, [$($name:ident : $mask:literal),*]) => {
        $( inst!($name, $unw, custom::<$m, $n, $l, $mask>()); )*
    };
}
custom_all_masks!(1, 1, 2, 6, [c01_custom_1x1_k0:0, c01_custom_1x1_k1:1, c01_custom_1x1_k2:2, c01_custom_1x1_k3:3, c01_custom_1x1_k4:4, c01_custom_1x1_k5:5, c01_custom_1x1_k6:6, c01_custom_1x1_k7:7, c01_custom_1x1_k8:8, c01_custom_1x1_k9:9, c01_custom_1x1_k10:10, c01_custom_1x1_k11:11, c01_custom_1x1_k12:12, c01_custom_1x1_k13:13, c01_custom_1x1_k14:14, c01_custom_1x1_k15:15]);
custom_all_masks!(2, 2, 4, 8, [c01_custom_2x2_k0:0, c01_custom_2x2_k1:1, c01_custom_2x2_k2:2, c01_custom_2x2_k3:3, c01_custom_2x2_k4:4, c01_custom_2x2_k5:5, c01_custom_2x2_k6:6, c01_custom_2x2_k7:7, c01_custom_2x2_k8:8, c01_custom_2x2_k9:9, c01_custom_2x2_k10:10, c01_custom_2x2_k11:11, c01_custom_2x2_k12:12, c01_custom_2x2_k13:13, c01_custom_2x2_k14:14, c01_custom_2x2_k15:15]);
custom_all_masks!(1, 2, 3, 7, [c01_custom_1x2_k0:0, c01_custom_1x2_k5:5, c01_custom_1x2_k10:10, c01_custom_1x2_k15:15]);
custom_all_masks!(2, 1, 3, 7, [c01_custom_2x1_k0:0, c01_custom_2x1_k5:5, c01_custom_2x1_k10:10, c01_custom_2x1_k15:15]);
custom_all_masks!(0, 2, 2, 6, [c01_custom_0x2_k0:0, c01_custom_0x2_k15:15]);
custom_all_masks!(2, 0, 2, 6, [c01_custom_2x0_k0:0, c01_custom_2x0_k15:15]);
custom_all_masks!(0, 0, 1, 5, [c01_custom_0x0_k15:15]);
custom_all_masks!(3, 3, 6, 10, [c01_custom_3x3_k0:0, c01_custom_3x3_k1:1, c01_custom_3x3_k2:2, c01_custom_3x3_k3:3, c01_custom_3x3_k4:4, c01_custom_3x3_k5:5, c01_custom_3x3_k6:6, c01_custom_3x3_k7:7, c01_custom_3x3_k8:8, c01_custom_3x3_k9:9, c01_custom_3x3_k10:10, c01_custom_3x3_k11:11, c01_custom_3x3_k12:12, c01_custom_3x3_k13:13, c01_custom_3x3_k14:14, c01_custom_3x3_k15:15]);
custom_all_masks!(2, 3, 5, 9, [c01_custom_2x3_k0:0, c01_custom_2x3_k15:15, c01_custom_2x3_k6:6]);
custom_all_masks!(3, 2, 5, 9, [c01_custom_3x2_k0:0, c01_custom_3x2_k15:15, c01_custom_3x2_k9:9]);
inst!(c01_global_1x1, 6, mode::<1, 1, 2, 15, 0>());
inst!(c01_semiglobal_1x1, 6, mode::<1, 1, 2, 15, 1>());
inst!(c01_local_1x1, 6, mode::<1, 1, 2, 15, 2>());
inst!(c01_global_2x2, 8, mode::<2, 2, 4, 15, 0>());
inst!(c01_semiglobal_2x2, 8, mode::<2, 2, 4, 15, 1>());
inst!(c01_local_2x2, 8, mode::<2, 2, 4, 15, 2>());
inst!(c01_global_2x2_k0, 8, mode::<2, 2, 4, 0, 0>());
inst!(c01_semiglobal_1x2, 7, mode::<1, 2, 3, 5, 1>());
inst!(c01_local_2x1, 7, mode::<2, 1, 3, 10, 2>());
inst!(c01_reuse_2x1_then_1x2, 7, reuse::<2, 1, 1, 2, 3, 15>());
inst!(c01_reuse_2x2_then_1x1, 8, reuse::<2, 2, 1, 1, 2, 15>());
inst!(c01_reuse_1x1_then_2x2, 8, reuse::<1, 1, 2, 2, 4, 15>());

// ---- concrete substitution table and gap penalties, symbolic clip penalties (per MASK) and symbolic sequences --------------
// Cheaper than the fully symbolic scheme, so it reaches larger shapes; the scoring schemes are chosen to include an
// asymmetric table with a positive mismatch score, gap_open = 0, and gap_extend = 0.
pub const SCHEMES: [([[i32; 2]; 2], i32, i32); 3] = [
    ([[1, -1], [-1, 1]], -2, -1),
    ([[2, 1], [-3, -1]], 0, -1),
    ([[1, -2], [-2, 1]], -1, 0),
];

#[cfg(kani)]
pub fn fixed_params<const MASK: u8>(scheme: usize) -> Params {
    let (table, go, ge) = SCHEMES[scheme];
    let mut clip = [MIN_SCORE; 4];
    let mut c = 0;
    while c < 4 {
        if MASK & (1 << c) != 0 {
            let v: i8 = kani::any();
            kani::assume(v >= -3 && v <= 0);
            clip[c] = v as i32;
        }
        c += 1;
    }
    Params { table, gap_open: go, gap_extend: ge, clip }
}

#[cfg(kani)]
pub fn custom_fixed<const M: usize, const N: usize, const L: usize, const MASK: u8, const SCHEME: usize>() {
    let p = fixed_params::<MASK>(SCHEME);
    let x: [u8; M] = kani::any();
    let y: [u8; N] = kani::any();
    let mut al = Aligner::with_capacity_and_scoring(M, N, scoring_of(p));
    let a = al.custom(&x[..], &y[..]);
    path_valid(&p, &x, &y, &a, true);
    competitor_bound::<M, N, L>(&p, &x, &y, a.score);
    kani::cover!(a.operations.len() >= 1, "non-empty path");
    core::mem::forget(al);
    core::mem::forget(a);
}

/// semiglobal()/local()/global() then custom() on the same object, concrete scheme: the wrapper must restore the aligner's
/// own clip penalties (observed through the following custom() call being optimal + valid under the ORIGINAL penalties).
#[cfg(kani)]
pub fn restore_fixed<const M: usize, const N: usize, const L: usize, const MASK: u8, const SCHEME: usize, const MODE: u8>() {
    let p = fixed_params::<MASK>(SCHEME);
    let x: [u8; M] = kani::any();
    let y: [u8; N] = kani::any();
    let mut al = Aligner::with_capacity_and_scoring(M, N, scoring_of(p));
    let a = match MODE {
        0 => al.global(&x[..], &y[..]),
        1 => al.semiglobal(&x[..], &y[..]),
        _ => al.local(&x[..], &y[..]),
    };
    core::mem::forget(a);
    let b = al.custom(&x[..], &y[..]);
    path_valid(&p, &x, &y, &b, true);
    competitor_bound::<M, N, L>(&p, &x, &y, b.score);
    kani::cover!(b.operations.len() >= 1, "non-empty path");
    core::mem::forget(al);
    core::mem::forget(b);
}

inst!(c01_fixed_1x1_k15_s0, 6, custom_fixed::<1, 1, 2, 15, 0>());
inst!(c01_fixed_1x1_k1_s0, 6, custom_fixed::<1, 1, 2, 1, 0>());
inst!(c01_fixed_1x2_k15_s1, 7, custom_fixed::<1, 2, 3, 15, 1>());
inst!(c01_fixed_2x2_k15_s0, 14, custom_fixed::<2, 2, 4, 15, 0>());
inst!(c01_fixed_2x2_k0_s1, 14, custom_fixed::<2, 2, 4, 0, 1>());
inst!(c01_fixed_2x2_k5_s2, 14, custom_fixed::<2, 2, 4, 5, 2>());
inst!(c01_fixed_2x2_k10_s1, 14, custom_fixed::<2, 2, 4, 10, 1>());
inst!(c01_fixed_3x3_k15_s0, 20, custom_fixed::<3, 3, 6, 15, 0>());
inst!(c01_restore_1x2_k4_s0_semi, 7, restore_fixed::<1, 2, 3, 4, 0, 1>());
inst!(c01_restore_1x2_k5_s0_local, 7, restore_fixed::<1, 2, 3, 5, 0, 2>());
inst!(c01_restore_1x1_k15_s0_global, 6, restore_fixed::<1, 1, 2, 15, 0, 0>());

/// (a) only: optimality by universal competitor (cheaper than the combined harness; reaches 2x2 and 3x3).
#[cfg(kani)]
pub fn custom_opt<const M: usize, const N: usize, const L: usize, const MASK: u8>() {
    let p = any_params::<MASK, 4>();
    let x: [u8; M] = kani::any();
    let y: [u8; N] = kani::any();
    let mut al = Aligner::with_capacity_and_scoring(M, N, scoring_of(p));
    let a = al.custom(&x[..], &y[..]);
    competitor_bound::<M, N, L>(&p, &x, &y, a.score);
    kani::cover!(a.score > 0, "positive score");
    core::mem::forget(al);
    core::mem::forget(a);
}
/// (b) only: the reported path is valid and re-scores to the reported score.
#[cfg(kani)]
pub fn custom_path<const M: usize, const N: usize, const MASK: u8>() {
    let p = any_params::<MASK, 4>();
    let x: [u8; M] = kani::any();
    let y: [u8; N] = kani::any();
    let mut al = Aligner::with_capacity_and_scoring(M, N, scoring_of(p));
    let a = al.custom(&x[..], &y[..]);
    path_valid(&p, &x, &y, &a, true);
    kani::cover!(a.operations.len() >= 2, "path of at least two operations");
    core::mem::forget(al);
    core::mem::forget(a);
}
inst!(c01_opt_2x2_k15, 14, custom_opt::<2, 2, 4, 15>());
inst!(c01_opt_2x2_k0, 14, custom_opt::<2, 2, 4, 0>());
inst!(c01_opt_2x2_k6, 14, custom_opt::<2, 2, 4, 6>());
inst!(c01_opt_2x2_k9, 14, custom_opt::<2, 2, 4, 9>());
inst!(c01_path_2x2_k15, 14, custom_path::<2, 2, 15>());
inst!(c01_path_2x2_k0, 14, custom_path::<2, 2, 0>());
inst!(c01_path_2x2_k6, 14, custom_path::<2, 2, 6>());
inst!(c01_path_2x2_k9, 14, custom_path::<2, 2, 9>());
inst!(c01_opt_3x3_k15, 20, custom_opt::<3, 3, 6, 15>());
inst!(c01_path_3x3_k15, 20, custom_path::<3, 3, 15>());

/// (b) only, bounded walk.
#[cfg(kani)]
pub fn custom_path_b<const M: usize, const N: usize, const LMAX: usize, const MASK: u8>() {
    let p = any_params::<MASK, 4>();
    let x: [u8; M] = kani::any();
    let y: [u8; N] = kani::any();
    let mut al = Aligner::with_capacity_and_scoring(M, N, scoring_of(p));
    let a = al.custom(&x[..], &y[..]);
    path_valid_bounded::<M, N, LMAX>(&p, &x, &y, &a, true);
    kani::cover!(a.operations.len() >= 2, "path of at least two operations");
    core::mem::forget(al);
    core::mem::forget(a);
}
inst!(c01_pathb_2x2_k15, 14, custom_path_b::<2, 2, 8, 15>());
inst!(c01_pathb_2x2_k0, 14, custom_path_b::<2, 2, 8, 0>());
inst!(c01_pathb_1x1_k15, 8, custom_path_b::<1, 1, 6, 15>());
