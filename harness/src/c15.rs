//! C15 — log-space probability arithmetic: the clauses that do not depend on libm values.
//!  * Prob::checked accepts exactly [0,1] (all f64 bit patterns).
//!  * fastexp kernel (pure +,*,casts,shifts,from_bits — bit-precise in CBMC): range, cut-off, fastexp(0)=1, and accuracy
//!    by cells with endpoint constants computed at generation time (see gen_c15.py -> gen_c15.rs).
//!  * structure of the log-space operators with libm replaced by contract stubs (ln_1p(0)=0 etc.).
//!  * PHRED <-> LogProb conversions compose to the identity within 1e-9 relative.
use bio::stats::probs::{LogProb, PHREDProb, Prob};
use bio::utils::FastExp;

#[cfg(kani)]
pub fn prob_checked() {
    let p: f64 = kani::any();
    let r = Prob::checked(p);
    let inside = p >= 0.0 && p <= 1.0;
    assert!(r.is_ok() == inside, "C15: Prob::checked must accept exactly [0,1]");
    if let Ok(q) = r {
        assert!(*q == p);
    }
    kani::cover!(p.is_nan(), "NaN input");
    kani::cover!(inside && p > 0.0 && p < 1.0, "interior value");
}

/// For every x <= 0 (incl. -inf): never NaN, result in [0, 1.005]; (almost) zero below the -500 cut-off; fastexp(0) within 0.5 % of 1.
#[cfg(kani)]
pub fn fastexp_range() {
    let x: f64 = kani::any();
    kani::assume(x <= 0.0);
    let y = x.fastexp();
    assert!(!y.is_nan(), "C15: fastexp produced NaN");
    assert!(y >= 0.0 && y <= 1.005, "C15: fastexp(x<=0) outside [0, 1 + 0.5 %]");
    if x <= -500.0 {
        assert!(y <= 1e-200, "C15: fastexp far below the cut-off must be (almost) zero");
    }
    if x == 0.0 {
        assert!(y >= 0.995, "C15: fastexp(0) not within 0.5 % of 1");
    }
    kani::cover!(x < -1.0 && x > -2.0 && y > 0.1, "ordinary argument");
}

/// One accuracy cell: for ALL doubles x in [lo, hi]:  elo*(1-0.005) <= fastexp(x) <= ehi*(1+0.005)
/// where elo <= exp(lo) and ehi >= exp(hi) are generation-time constants (monotonicity of exp is the trusted fact).
#[cfg(kani)]
pub fn fastexp_cell(lo: f64, hi: f64, elo: f64, ehi: f64) {
    let x: f64 = kani::any();
    kani::assume(x >= lo && x <= hi);
    let y = x.fastexp();
    assert!(y >= elo * (1.0 - 0.005), "C15: fastexp below exp(x) by more than 0.5 % (+ cell slack)");
    assert!(y <= ehi * (1.0 + 0.005), "C15: fastexp above exp(x) by more than 0.5 % (+ cell slack)");
    kani::cover!(x > lo && x < hi, "interior of the cell");
}

/// PHRED -> LogProb -> PHRED and back: two multiplications by constants; identity within 1e-9 relative.
#[cfg(kani)]
pub fn phred_log_roundtrip() {
    let q: f64 = kani::any();
    kani::assume(q >= 0.0 && q <= 1.0e6);
    let l = LogProb::from(PHREDProb(q));
    let q2 = PHREDProb::from(l);
    assert!(*l <= 0.0 && !l.is_nan(), "C15: PHRED -> LogProb must be a valid log-probability");
    let err = (*q2 - q).abs();
    assert!(err <= 1e-9 * q.abs() || (q == 0.0 && *q2 == 0.0) || err <= 1e-300, "C15: PHRED->Log->PHRED not the identity within 1e-9");
    kani::cover!(q > 1.0 && *q2 != q, "rounding visible");
}

#[cfg(kani)]
pub fn log_phred_roundtrip() {
    let l: f64 = kani::any();
    kani::assume(l <= 0.0 && l >= -1.0e6);
    let q = PHREDProb::from(LogProb(l));
    let l2 = LogProb::from(q);
    assert!(*q >= 0.0, "C15: LogProb -> PHRED must be non-negative");
    let err = (*l2 - l).abs();
    assert!(err <= 1e-9 * l.abs() || err <= 1e-300, "C15: Log->PHRED->Log not the identity within 1e-9");
    kani::cover!(l < -1.0 && *l2 != l, "rounding visible");
}

// ---- libm contract stubs (documented contract only: exact at the neutral point, sign, monotone bounds) ------------------
#[cfg(kani)]
pub fn stub_ln_1p(x: f64) -> f64 {
    // ln(1+x): exact 0 at 0; NaN below -1; otherwise some value with the sign of x, never NaN; -inf at -1
    if x == 0.0 {
        return x;
    }
    if x.is_nan() || x < -1.0 {
        return f64::NAN;
    }
    if x == -1.0 {
        return f64::NEG_INFINITY;
    }
    let r: f64 = kani::any();
    kani::assume(!r.is_nan());
    if x > 0.0 {
        kani::assume(r >= 0.0 && r <= x);
    } else {
        kani::assume(r <= x && r > f64::NEG_INFINITY);
    }
    r
}

/// ln_add_exp: ln(0) is the neutral element on either side (bit-for-bit), never NaN for valid operands, result >= max.
#[cfg(kani)]
#[kani::proof]
#[kani::stub(f64::ln_1p, stub_ln_1p)]
pub fn c15_ln_add_exp_structure() {
    let a: f64 = kani::any();
    let b: f64 = kani::any();
    kani::assume(a <= 0.0 && b <= 0.0); // valid log-probabilities incl. -inf
    let (pa, pb) = (LogProb(a), LogProb(b));
    let z = LogProb::ln_zero();
    assert!((*pa.ln_add_exp(z)).to_bits() == a.to_bits() || (a == 0.0 && *pa.ln_add_exp(z) == 0.0), "C15: p + 0 != p");
    assert!(*z.ln_add_exp(pa) == a, "C15: 0 + p != p");
    let s = pa.ln_add_exp(pb);
    assert!(!s.is_nan(), "C15: ln_add_exp produced NaN for valid operands");
    let mx = if a > b { a } else { b };
    assert!(*s >= mx, "C15: log-space sum is smaller than its larger operand");
    assert!(*z.ln_add_exp(z) == f64::NEG_INFINITY, "C15: 0 + 0 != 0");
    kani::cover!(a > f64::NEG_INFINITY && b > f64::NEG_INFINITY && a != b, "two finite distinct operands");
}

/// ln_sum_exp / ln_cumsum_exp on N operands: all-ln(0) gives ln(0); inserting ln(0) entries does not change the result class;
/// never NaN; result >= max operand.
#[cfg(kani)]
pub fn ln_sum_exp_structure<const N: usize>() {
    let mut v = [LogProb::ln_zero(); N];
    let mut mx = f64::NEG_INFINITY;
    let mut i = 0;
    while i < N {
        let x: f64 = kani::any();
        kani::assume(x <= 0.0);
        v[i] = LogProb(x);
        if x > mx {
            mx = x;
        }
        i += 1;
    }
    let s = LogProb::ln_sum_exp(&v[..]);
    assert!(!s.is_nan(), "C15: ln_sum_exp produced NaN");
    assert!(*s >= mx, "C15: ln_sum_exp smaller than its largest operand");
    if mx == f64::NEG_INFINITY {
        assert!(*s == f64::NEG_INFINITY, "C15: sum of zeros is not zero");
    }
    // cumulative sum: non-decreasing, last equals >= max, never NaN
    let mut prev = f64::NEG_INFINITY;
    let mut cnt = 0;
    for c in LogProb::ln_cumsum_exp(v.iter().cloned()) {
        assert!(!c.is_nan(), "C15: ln_cumsum_exp produced NaN");
        assert!(*c >= prev, "C15: cumulative sum decreases");
        prev = *c;
        cnt += 1;
    }
    assert!(cnt == N);
    assert!(prev >= mx);
    kani::cover!(mx > f64::NEG_INFINITY && *s > mx, "sum strictly above the maximum");
}
#[cfg(kani)]
#[kani::proof]
#[kani::unwind(6)]
#[kani::stub(f64::ln_1p, stub_ln_1p)]
pub fn c15_ln_sum_exp_structure_n3() {
    ln_sum_exp_structure::<3>()
}
#[cfg(kani)]
#[kani::proof]
#[kani::unwind(4)]
#[kani::stub(f64::ln_1p, stub_ln_1p)]
pub fn c15_ln_sum_exp_structure_n1() {
    ln_sum_exp_structure::<1>()
}

use crate::inst;
inst!(c15_prob_checked, 2, prob_checked());
inst!(c15_fastexp_range, 2, fastexp_range());
inst!(c15_phred_log_roundtrip, 2, phred_log_roundtrip());
inst!(c15_log_phred_roundtrip, 2, log_phred_roundtrip());

#[cfg(kani)]
include!("gen_c15.rs");
