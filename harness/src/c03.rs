//! C03 — suffix array / LCP / shortest unique substrings (the clauses that are within reach).
use bio::data_structures::smallints::SmallInts;
use bio::data_structures::suffix_array::{lcp, shortest_unique_substrings, suffix_array, SuffixArray};

#[cfg(kani)]
use crate::c04::{assumed_sa, bytes_from, suffix_less};

/// length of the longest common prefix of suffixes i and j (definition)
fn lcp_naive<const N: usize>(t: &[u8; N], i: usize, j: usize) -> usize {
    let mut l = 0;
    while l < N {
        if i + l >= N || j + l >= N || t[i + l] != t[j + l] {
            return l;
        }
        l += 1;
    }
    l
}

/// Kasai LCP: single-sentinel text (N-1 symbols over {A,C}, then '$'), suffix array assumed sorted.
#[cfg(kani)]
pub fn lcp_kasai<const N: usize>() {
    let mut t = bytes_from::<N>(b"AC");
    t[N - 1] = b'$';
    let sa = assumed_sa(&t);
    let sav = sa.to_vec();
    let l = lcp(&t[..], &sav);
    assert!(l.len() == N + 1, "C03: LCP array length");
    assert!(l.get(0) == Some(-1) && l.get(N) == Some(-1), "C03: LCP must be -1 at both ends");
    let r: usize = kani::any();
    kani::assume(r >= 1 && r < N);
    assert!(l.get(r) == Some(lcp_naive(&t, sa[r - 1], sa[r]) as isize), "C03: LCP[r] is not the longest common prefix of adjacent suffixes");
    kani::cover!(l.get(r) == Some(2), "common prefix of length 2");
    core::mem::forget(l);
    core::mem::forget(sav);
}

pub struct ArrSA<const N: usize>(pub [usize; N]);
impl<const N: usize> SuffixArray for ArrSA<N> {
    fn get(&self, index: usize) -> Option<usize> {
        if index < N {
            Some(self.0[index])
        } else {
            None
        }
    }
    fn len(&self) -> usize {
        N
    }
    fn is_empty(&self) -> bool {
        N == 0
    }
}

/// shortest_unique_substrings == brute force: sus[p] = least len with p+len <= n such that text[p..p+len] occurs once.
#[cfg(kani)]
pub fn sus<const N: usize>() {
    let mut t = bytes_from::<N>(b"AC");
    t[N - 1] = b'$';
    let sa = assumed_sa(&t);
    // LCP array by definition, stored in the real container type
    let mut l: SmallInts<i8, isize> = SmallInts::from_elem(-1, N + 1);
    let mut r = 1;
    while r < N {
        l.set(r, lcp_naive(&t, sa[r - 1], sa[r]) as isize);
        r += 1;
    }
    let res = shortest_unique_substrings(&ArrSA::<N>(sa), &l);
    assert!(res.len() == N);
    let p: usize = kani::any();
    kani::assume(p < N);
    // brute force
    let mut want: Option<usize> = None;
    let mut len = 1;
    while len <= N {
        if want.is_none() && p + len <= N {
            let mut occ = 0;
            let mut s = 0;
            while s < N {
                if s + len <= N {
                    let mut eq = true;
                    let mut k = 0;
                    while k < N {
                        if k < len && t[s + k] != t[p + k] {
                            eq = false;
                        }
                        k += 1;
                    }
                    if eq {
                        occ += 1;
                    }
                }
                s += 1;
            }
            if occ == 1 {
                want = Some(len);
            }
        }
        len += 1;
    }
    assert!(res[p] == want, "C03: shortest unique substring length differs from brute force");
    kani::cover!(want == Some(2), "length-2 unique substring");
    core::mem::forget(res);
    core::mem::forget(l);
}

/// SA-IS itself at the smallest sizes.
#[cfg(kani)]
pub fn sais<const N: usize>() {
    let mut t = bytes_from::<N>(b"AC");
    t[N - 1] = b'$';
    let sa = suffix_array(&t[..]);
    assert!(sa.len() == N);
    let r: usize = kani::any();
    kani::assume(r >= 1 && r < N);
    assert!(sa[r] < N && sa[r - 1] < N);
    assert!(suffix_less(&t, sa[r - 1], sa[r]), "C03: suffix array is not sorted");
    assert!(sa[0] == N - 1, "C03: the final sentinel must be the smallest suffix");
    kani::cover!(sa[1] != N - 2, "non-trivial order");
    core::mem::forget(sa);
}

use crate::inst;
inst!(c03_lcp_n3, 8, lcp_kasai::<3>());
inst!(c03_lcp_n4, 8, lcp_kasai::<4>());
inst!(c03_lcp_n5, 9, lcp_kasai::<5>());
inst!(c03_sus_n3, 8, sus::<3>());
inst!(c03_sus_n4, 8, sus::<4>());
inst!(c03_sus_n5, 9, sus::<5>());
inst!(c03_sais_n2, 70, sais::<2>());
inst!(c03_sais_n3, 70, sais::<3>());
inst!(c03_sais_n4, 70, sais::<4>());
