//! C20 — complements, alphabets, GC content (and the ORF finder where it fits) follow their definitions.
use bio::alphabets::{self, Alphabet, RankTransform};
use bio::seq_analysis::gc::{gc3_content, gc_content};
use bio::seq_analysis::orf::{Finder, Orf};

fn is_member(set: &[u8], b: u8) -> bool {
    let mut i = 0;
    while i < set.len() {
        if set[i] == b {
            return true;
        }
        i += 1;
    }
    false
}

/// DNA complement over all 256 byte values.
#[cfg(kani)]
pub fn dna_complement() {
    use bio::alphabets::dna::complement;
    let b: u8 = kani::any();
    let c = complement(b);
    assert!(complement(c) == b, "C20: dna::complement is not an involution");
    assert!(c & 0x20 == b & 0x20 || !b.is_ascii_alphabetic(), "C20: dna::complement changes case");
    if !is_member(b"AGCTYRWSKMDVHBNagctyrwskmdvhbn", b) {
        assert!(c == b, "C20: non-nucleotide byte changed by dna::complement");
    }
    // Watson-Crick pairs (definition of complement for the four bases)
    if b == b'A' { assert!(c == b'T'); }
    if b == b'C' { assert!(c == b'G'); }
    if b == b'a' { assert!(c == b't'); }
    if b == b'c' { assert!(c == b'g'); }
    kani::cover!(c != b, "a byte that is changed");
    kani::cover!(b >= 128, "non-ASCII byte");
}

#[cfg(kani)]
pub fn rna_complement() {
    use bio::alphabets::rna::complement;
    let b: u8 = kani::any();
    let c = complement(b);
    assert!(complement(c) == b, "C20: rna::complement is not an involution");
    assert!(c & 0x20 == b & 0x20 || !b.is_ascii_alphabetic(), "C20: rna::complement changes case");
    if !is_member(b"AGCUYRWSKMDVHBNZagcuyrwskmdvhbnz", b) {
        assert!(c == b, "C20: non-nucleotide byte changed by rna::complement");
    }
    if b == b'A' { assert!(c == b'U'); }
    if b == b'C' { assert!(c == b'G'); }
    if b == b'a' { assert!(c == b'u'); }
    if b == b'c' { assert!(c == b'g'); }
    kani::cover!(c != b, "a byte that is changed");
    kani::cover!(b >= 128, "non-ASCII byte");
}

/// revcomp(revcomp(s)) == s and revcomp reverses, |s| = N, all bytes symbolic.
#[cfg(kani)]
pub fn dna_revcomp<const N: usize>() {
    use bio::alphabets::dna::{complement, revcomp};
    let s: [u8; N] = kani::any();
    let r = revcomp(s.iter());
    assert!(r.len() == N);
    let i: usize = kani::any();
    kani::assume(i < N);
    assert!(r[i] == complement(s[N - 1 - i]), "C20: revcomp is not reverse o complement");
    let rr = revcomp(r.iter());
    assert!(rr.len() == N && rr[i] == s[i], "C20: revcomp twice does not restore the sequence");
    kani::cover!(r[0] != s[0], "changed");
    core::mem::forget(r);
    core::mem::forget(rr);
}
#[cfg(kani)]
pub fn rna_revcomp<const N: usize>() {
    use bio::alphabets::rna::{complement, revcomp};
    let s: [u8; N] = kani::any();
    let r = revcomp(s.iter());
    assert!(r.len() == N);
    let i: usize = kani::any();
    kani::assume(i < N);
    assert!(r[i] == complement(s[N - 1 - i]), "C20: revcomp is not reverse o complement");
    let rr = revcomp(r.iter());
    assert!(rr.len() == N && rr[i] == s[i], "C20: revcomp twice does not restore the sequence");
    kani::cover!(r[0] != s[0], "changed");
    core::mem::forget(r);
    core::mem::forget(rr);
}

/// Alphabet = every non-empty subset of CAND (enumerated with concrete control flow inside the harness, so the BitSet /
/// VecMap shapes stay concrete); text and the queried member are symbolic: membership, len, max_symbol, rank transform.
#[cfg(kani)]
pub fn alphabet_ranks<const C: usize, const T: usize>(cand: [u8; C]) {
    let mut mask = 1usize;
    while mask < (1 << C) {
        let mut a = Alphabet::new(&[] as &[u8]);
        let mut n = 0usize;
        let mut i = 0;
        while i < C {
            if mask & (1 << i) != 0 {
                a.insert(cand[i]);
                n += 1;
            }
            i += 1;
        }
        assert!(a.len() == n, "C20: alphabet size");
        assert!(!a.is_empty());
        // is_word(t) <=> every symbol of t is a member
        let t: [u8; T] = kani::any();
        let mut all = true;
        let mut j = 0;
        while j < T {
            let mut member = false;
            let mut i = 0;
            while i < C {
                if mask & (1 << i) != 0 && cand[i] == t[j] {
                    member = true;
                }
                i += 1;
            }
            all = all && member;
            j += 1;
        }
        assert!(a.is_word(t.iter()) == all, "C20: is_word differs from per-symbol membership");
        // rank transform: rank(c) = number of members smaller than c  (order-preserving bijection onto 0..n)
        let rt = RankTransform::new(&a);
        let x: usize = kani::any();
        kani::assume(x < C && mask & (1 << x) != 0);
        let mut smaller = 0u8;
        let mut maxsym = 0u8;
        let mut i = 0;
        while i < C {
            if mask & (1 << i) != 0 && cand[i] < cand[x] {
                smaller += 1;
            }
            if mask & (1 << i) != 0 && cand[i] > maxsym {
                maxsym = cand[i];
            }
            i += 1;
        }
        assert!(rt.get(cand[x]) == smaller, "C20: rank is not the order-preserving bijection onto 0..|A|");
        assert!(a.max_symbol() == Some(maxsym), "C20: max_symbol");
        if mask + 1 == (1 << C) {
            kani::cover!(all, "a word over the full candidate alphabet");
            kani::cover!(!all, "a non-word");
            kani::cover!(smaller as usize == n - 1, "largest symbol queried");
        }
        core::mem::forget(rt);
        core::mem::forget(a);
        mask += 1;
    }
}

/// gc_content / gc3_content: one IEEE division of exact counts.
#[cfg(kani)]
pub fn gc<const N: usize>() {
    let s: [u8; N] = kani::any();
    let mut cnt = 0usize;
    let mut cnt3 = 0usize;
    let mut l3 = 0usize;
    let mut i = 0;
    while i < N {
        let g = s[i] == b'G' || s[i] == b'C' || s[i] == b'g' || s[i] == b'c';
        if g {
            cnt += 1;
        }
        if i % 3 == 0 {
            l3 += 1;
            if g {
                cnt3 += 1;
            }
        }
        i += 1;
    }
    let got = gc_content(s.iter());
    assert!(got == cnt as f32 / N as f32, "C20: gc_content is not count/len");
    let got3 = gc3_content(s.iter());
    assert!(got3 == cnt3 as f32 / l3 as f32, "C20: gc3_content is not count/len over every third base");
    if N >= 2 {
        kani::cover!(cnt == 1, "exactly one G/C");
        kani::cover!(cnt3 < cnt, "G/C off the third-base grid");
    } else {
        kani::cover!(cnt == 1, "G/C");
    }
}

use crate::inst;
inst!(c20_dna_complement, 258, dna_complement());
inst!(c20_rna_complement, 258, rna_complement());
inst!(c20_dna_revcomp_n1, 258, dna_revcomp::<1>());
inst!(c20_dna_revcomp_n3, 258, dna_revcomp::<3>());
inst!(c20_rna_revcomp_n3, 258, rna_revcomp::<3>());
inst!(c20_dna_revcomp_n4, 258, dna_revcomp::<4>());
inst!(c20_dna_revcomp_n6, 258, dna_revcomp::<6>());
inst!(c20_rna_revcomp_n5, 258, rna_revcomp::<5>());
inst!(c20_alphabet_c4_t3, 90, alphabet_ranks::<4, 3>([b'A', b'C', b'G', b'T']));
inst!(c20_alphabet_c5_t2, 260, alphabet_ranks::<5, 2>([0u8, b'$', b'A', b'a', 255u8]));
inst!(c20_alphabet_c3_t2, 260, alphabet_ranks::<3, 2>([31u8, 32u8, 255u8]));
inst!(c20_gc_n1, 10, gc::<1>());
inst!(c20_gc_n4, 10, gc::<4>());
inst!(c20_gc_n6, 10, gc::<6>());
inst!(c20_gc_n7, 10, gc::<7>());
inst!(c20_gc_n9, 12, gc::<9>());
inst!(c20_gc_n12, 15, gc::<12>());
inst!(c20_gc_n24, 27, gc::<24>());
inst!(c20_alphabet_small_c4_t3, 20, alphabet_ranks::<4, 3>([0u8, 1u8, 2u8, 5u8]));
inst!(c20_alphabet_block_c4_t2, 70, alphabet_ranks::<4, 2>([0u8, 31u8, 32u8, 63u8]));
