//! C05 — FM-index backward search returns exactly the pattern's occurrences.
//! Compositional: the real provided method `FMIndexable::backward_search` (LF-mapping loop, interval bookkeeping,
//! Complete/Partial/Absent classification) runs over an implementor whose occ/less are the *definitions*;
//! exactness of the real Occ/less/bwt tables is C04's claim. Oracle: naive scan for occurrences of pattern suffixes.
use bio::data_structures::bwt::BWT;
use bio::data_structures::fmindex::{BackwardSearchResult, FMIndexable, Interval};
use bio::data_structures::suffix_array::SuffixArray;

#[cfg(kani)]
use crate::c04::{assumed_sa, bytes_from};

pub struct ExactFM<const N: usize> {
    pub b: [u8; N],
    pub bv: BWT,
}

impl<const N: usize> FMIndexable for ExactFM<N> {
    fn occ(&self, r: usize, a: u8) -> usize {
        let mut n = 0;
        let mut i = 0;
        while i < N {
            if i <= r && self.b[i] == a {
                n += 1;
            }
            i += 1;
        }
        n
    }
    fn less(&self, a: u8) -> usize {
        let mut n = 0;
        let mut i = 0;
        while i < N {
            if self.b[i] < a {
                n += 1;
            }
            i += 1;
        }
        n
    }
    fn bwt(&self) -> &BWT {
        &self.bv
    }
}

/// does p[from..] occur in t at position s ?
fn occurs<const N: usize, const M: usize>(t: &[u8; N], p: &[u8; M], from: usize, s: usize) -> bool {
    let len = M - from;
    if s + len > N {
        return false;
    }
    let mut j = 0;
    while j < M {
        if j < len && t[s + j] != p[from + j] {
            return false;
        }
        j += 1;
    }
    true
}

fn count_occ<const N: usize, const M: usize>(t: &[u8; N], p: &[u8; M], from: usize) -> usize {
    let mut c = 0;
    let mut s = 0;
    while s < N {
        if occurs(t, p, from, s) {
            c += 1;
        }
        s += 1;
    }
    c
}

/// Text: N symbols, the last one '$'; SENT further sentinel positions are symbolic (multi-sequence texts).
/// The sentinel order used is the one the property allows: any fixed total order consistent with one comparison,
/// here realised by the assumed-sorted suffix array over the byte order in which '$' < letters and ties between
/// sentinel suffixes are broken by what follows / by reaching the end first.
#[cfg(kani)]
pub fn backward_search<const N: usize, const M: usize, const MULTI: bool>() {
    backward_search_over::<N, M, MULTI>(b"AC")
}
#[cfg(kani)]
pub fn backward_search_over<const N: usize, const M: usize, const MULTI: bool>(alpha: &[u8]) {
    let mut t = bytes_from::<N>(alpha);
    t[N - 1] = b'$';
    if MULTI {
        let s: usize = kani::any();
        kani::assume(s < N - 1);
        t[s] = b'$';
    }
    let sa = assumed_sa(&t);
    // bwt by definition
    let mut b = [0u8; N];
    let mut r = 0;
    while r < N {
        b[r] = t[(sa[r] + N - 1) % N];
        r += 1;
    }
    let fm = ExactFM::<N> { b, bv: b.to_vec() };
    let p = bytes_from::<M>(alpha);
    let res = fm.backward_search(p.iter());
    // l* = length of the longest pattern suffix that occurs
    let mut longest = 0;
    let mut from = M;
    while from > 0 {
        from -= 1;
        if count_occ(&t, &p, from) > 0 {
            longest = M - from;
        } else {
            break;
        }
    }
    match res {
        BackwardSearchResult::Complete(iv) => {
            assert!(longest == M, "C05: Complete reported but the pattern does not occur");
            check_interval(&t, &sa, &p, 0, iv);
        }
        BackwardSearchResult::Partial(iv, l) => {
            assert!(longest < M && longest > 0, "C05: Partial reported for a complete or absent match");
            assert!(l == longest, "C05: Partial length is not the longest occurring suffix");
            check_interval(&t, &sa, &p, M - l, iv);
        }
        BackwardSearchResult::Absent => {
            assert!(longest == 0, "C05: Absent reported although the last symbol occurs");
        }
    }
    if M < N {
        kani::cover!(longest == M && count_occ(&t, &p, 0) >= 2, "pattern occurs at least twice");
    }
    if M > 1 {
        kani::cover!(longest > 0 && longest < M, "partial match");
    }
    kani::cover!(longest == 0, "absent");
    core::mem::forget(fm);
}

/// the interval maps through the suffix array to exactly the occurrence positions of p[from..]
#[cfg(kani)]
fn check_interval<const N: usize, const M: usize>(t: &[u8; N], sa: &[usize; N], p: &[u8; M], from: usize, iv: Interval) {
    assert!(iv.lower <= iv.upper && iv.upper <= N, "C05: interval out of range");
    assert!(iv.upper - iv.lower == count_occ(t, p, from), "C05: interval size differs from the number of occurrences");
    let r: usize = kani::any();
    kani::assume(r < N);
    let inside = r >= iv.lower && r < iv.upper;
    assert!(inside == occurs(t, p, from, sa[r]), "C05: interval does not map to exactly the occurrence positions");
}

use crate::inst;
inst!(c05_bs_n4_m1, 8, backward_search::<4, 1, false>());
inst!(c05_bs_n4_m2, 8, backward_search::<4, 2, false>());
inst!(c05_bs_n5_m2, 8, backward_search::<5, 2, false>());
inst!(c05_bs_n5_m3, 8, backward_search::<5, 3, false>());
inst!(c05_bs_n6_m2, 9, backward_search::<6, 2, false>());
inst!(c05_bs_n6_m3, 9, backward_search::<6, 3, false>());
inst!(c05_bs_n5_m2_multi, 8, backward_search::<5, 2, true>());
inst!(c05_bs_n6_m3_multi, 9, backward_search::<6, 3, true>());
inst!(c05_bs_n3_m4, 8, backward_search::<3, 4, false>());
inst!(c05_bs_n7_m3, 10, backward_search::<7, 3, false>());
inst!(c05_bs_n8_m3, 11, backward_search::<8, 3, false>());
inst!(c05_bs_n8_m4_multi, 11, backward_search::<8, 4, true>());
inst!(c05_bs_n6_m3_acg, 9, backward_search_over::<6, 3, false>(b"ACG"));
inst!(c05_bs_n7_m2_acgt_multi, 10, backward_search_over::<7, 2, true>(b"ACGT"));
inst!(c05_bs_n10_m4, 13, backward_search::<10, 4, false>());
inst!(c05_bs_n12_m4, 15, backward_search::<12, 4, false>());
inst!(c05_bs_n12_m5_multi, 15, backward_search::<12, 5, true>());
inst!(c05_bs_n9_m3_acgt, 12, backward_search_over::<9, 3, false>(b"ACGT"));
inst!(c05_bs_n14_m3, 17, backward_search::<14, 3, false>());
