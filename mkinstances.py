#!/usr/bin/env python3
"""Instance tables (committed, not discovered at run time): per property the harness instances that completed on the
unchanged tree during development, with measured solver time `t` (seconds, under 16-way load). Writes instances.json."""
import json, os, re
V = os.path.dirname(os.path.abspath(__file__))
P = {}

def prop(pid, feature, level_text, level_note, functions, bounds, outside, assumptions):
    P[pid] = dict(feature=feature, level_text=level_text, level_note=level_note, functions=functions, bounds=bounds,
                  outside=outside, assumptions=assumptions, instances=[])
    def add(h, t, bound, tier="quick", **kw):
        d = dict(h=h, tier=tier, t=t, bound=bound)
        d.update(kw)
        P[pid]["instances"].append(d)
    return add

TRUST = "Trusted: Kani 0.68/CBMC 6.11/CaDiCaL, the MIR of Kani's pinned rustc, Kani's models of std (Vec, alloc). "

# ---------------------------------------------------------------------------------------------------------------- C18
add = prop("C18", "c18",
 "Bounded model checking of the real BitEnc / FenwickTree / SmallInts code: for every listed script shape (kinds and counts of operations concrete, every stored value, set index and observed index symbolic) the solver shows that all observers (nr_symbols, nr_blocks, get incl. out-of-range, iter, is_empty) agree with a plain vector model, for ALL values at once. Right level because the defects here live in rare shape/value corners (phantom slot for widths not dividing 32, unmasked fill value) that sampling misses and the solver returns as satisfying assignments.",
 "Bound: BitEnc widths 1..=8; scripts push^a;push_values(n);push;set with a in {1,per-1,per}, n in {0,1,2,per-2..per+1,2per-1,2per+1} (per = values per block) plus five history scripts per width (fill first, clear+reuse, consecutive fills); Fenwick sum/max trees of length <=8 with <=4 updates (max over pairs: length 5, 3 updates); SmallInts from_elem/set. " + TRUST + "Outside: longer scripts, symbolic operation kinds, set() beyond len.",
 ["bio::data_structures::bitenc::BitEnc::{new,push,push_values,set,get,iter,clear,nr_blocks,nr_symbols,is_empty,addr,set_by_addr,get_by_addr}", "bio::data_structures::bitenc::BitEncIter::next", "bio::data_structures::bit_tree::FenwickTree::{new,get,set} for SumOp/MaxOp over u32 and MaxOp over (u32,u32)", "bio::data_structures::smallints::SmallInts::<i8,isize>::{from_elem,set,get,len}"],
 "see level_note; per-instance bounds are in coverage.samples[].bound",
 "scripts with symbolic operation kinds or counts (Vec::resize with a symbolic length exhausts memory: measured), SmallInts push/set scripts (BTreeMap::insert in the cone: out of memory at 24 GB)",
 ["set(i, v) only with i < len (documented precondition)", "Fenwick sum values < 2^24 so that sums cannot overflow u32"])
t_h = {1: 75, 2: 47, 3: 36, 4: 28, 5: 25, 6: 29, 7: 21, 8: 21}
t_f = {1: 432, 2: 250, 3: 206, 4: 163, 5: 158, 6: 149, 7: 115, 8: 100}
for w in range(1, 9):
    add(f"c18_bitenc_hist_w{w}", t_h[w], f"BitEnc width {w}: 5 history scripts (fill first; push^(per+1),clear,push,fill(per),push; push,fill(1),fill(per),set,push; fill(2),clear; push^2,set,fill(2per),clear,fill(3),set), all values/indices symbolic", role="bitenc_hist")
for w in range(1, 9):
    add(f"c18_bitenc_fill_w{w}", t_f[w], f"BitEnc width {w}: push^a;push_values(n);push;set for a in {{1,per-1,per}} x n in {{0,1,2,per-2,per-1,per,per+1,2per-1,2per+1}}, all values/indices symbolic", tier="quick" if w in (3, 5, 6, 7) else "thorough", role="bitenc_fill")
add("c18_fenwick_sum_l5_k3", 27, "SumBitTree<u32> len 5, 3 symbolic updates, symbolic query")
add("c18_fenwick_max_l5_k3", 13, "MaxBitTree<u32> len 5, 3 updates")
add("c18_fenwick_maxpair_l5_k3", 43, "MaxBitTree<(u32,u32)> len 5, 3 updates")
add("c18_fenwick_max_l8_k4", 155, "MaxBitTree<u32> len 8, 4 updates")
add("c18_smallints_from_elem_n3", 62, "SmallInts<i8,isize>::from_elem(v,3); set(i,w) with symbolic v,i,w; get")
add("c18_fenwick_sum_l8_k4", 1200, "SumBitTree<u32> len 8, 4 updates", tier="thorough")

# ---------------------------------------------------------------------------------------------------------------- C17
add = prop("C17", "c17",
 "Bounded model checking of the real RankSelect code: for each listed bit-vector length n and superblock factor k, ALL 2^n bit contents and ALL query arguments (i in [0,n+1], j in [0,n+1]) are covered by one solver query each; rank_1/rank_0/get are compared with popcounts of a word model of the vector, select_1/select_0 against the declarative definition (the returned position holds a matching bit and exactly j matching bits lie at or before it; None iff j=0 or j exceeds the count; never a padding bit), and the inverse laws rank(select(j)) = j are asserted.",
 "Bound: rank at n in {1,7,8,9,31,33,40,65,72} (quick; k in {1,2}) + n=128 (k=2) and n=100 with k=3 (thorough); select at n in {1,8,9,31,33,40} (quick) + {7,16,17,24,65,72; k in {1,2}} (thorough); rank/select inverse law at n=9 (quick), 33, 65 (thorough). " + TRUST + "Not decided: WaveletMatrix (its level construction partitions symbolic symbols into Vecs of symbolic length: n=3 timed out at 15 min, n>=5 out of memory).",
 ["bio::data_structures::rank_select::RankSelect::{new,rank_1,rank_0,select_1,select_0,select_x,get}", "rank_select::superblocks", "rank_select::SuperblockRank::{cmp,deref}", "bv::BitVec<u8>::{new_fill,set,get_block,len,block_len}"],
 "n <= 128 bits for rank, n <= 72 bits for select (k in {1,2}); all bit contents and all query arguments symbolic",
 "longer bit vectors; superblock factors > 3 (rank) / > 2 (select); WaveletMatrix::rank",
 ["bit vectors are built through BitVec::new_fill(false, n) + set_block for whole bytes + set(i, b) for the last partial byte: padding bits of the last byte are zero, as the API leaves them"])
for n, k, t, tier in [(1, 1, 15, "quick"), (7, 1, 18, "quick"), (8, 1, 18, "quick"), (9, 1, 19, "quick"), (31, 1, 32, "quick"), (33, 1, 33, "quick"),
                      (40, 1, 50, "quick"), (65, 1, 100, "quick"), (65, 2, 110, "thorough"), (72, 2, 120, "quick"), (128, 2, 229, "thorough"), (100, 3, 200, "thorough")]:
    add(f"c17_rank_n{n}_k{k}", t, f"rank_1/rank_0/get, n={n} bits, k={k}, all contents, i in [0,n+1]", tier=tier, **({"min_covers": 1} if n <= 8 else {}))
for n, k, t, tier in [(1, 1, 109, "quick"), (7, 1, 109, "thorough"), (8, 1, 127, "quick"), (9, 1, 125, "quick"), (16, 1, 130, "thorough"), (17, 1, 149, "thorough"),
                      (24, 1, 142, "thorough"), (31, 1, 164, "quick"), (33, 1, 202, "quick"), (40, 1, 215, "quick"), (65, 1, 464, "thorough"), (65, 2, 593, "thorough"), (72, 2, 636, "thorough")]:
    add(f"c17_select_n{n}_k{k}", t, f"select_1/select_0 (declarative oracle: returned position is the j-th matching bit, None iff j=0 or j>count), n={n} bits, k={k}, all contents, j in [0,n+1]", tier=tier, **({"min_covers": 2} if n <= 32 else {}))
for n, k, t, tier in [(9, 1, 135, "quick"), (33, 1, 250, "thorough"), (65, 2, 553, "thorough")]:
    add(f"c17_inverse_n{n}_k{k}", t, f"rank_x(select_x(j)) == j, n={n} bits, k={k}", tier=tier)

# ---------------------------------------------------------------------------------------------------------------- C20
add = prop("C20", "c20",
 "Bounded model checking of the real complement tables, revcomp, Alphabet/RankTransform and GC-content code: all 256 byte values (complements), all byte contents of sequences of the listed lengths (revcomp, gc), every non-empty subset of the listed candidate symbols with symbolic texts (alphabets) are covered by the solver in one query each.",
 "Bound: dna/rna complement over all 256 bytes (involution, case bit preserved, non-IUPAC bytes fixed, A-T/U and C-G pairs); revcomp twice = identity and revcomp = reverse o complement for lengths 1,3 (quick) and 4,5,6 (thorough); gc_content/gc3_content == count/len as one f32 division for lengths 1,4,6,7 (quick) and 9,12,24 (thorough); Alphabet::{insert,len,is_word,max_symbol} and RankTransform::{new,get} for all non-empty subsets of 3-5 candidate bytes (incl. 0, 31/32 block boundary, 255) with symbolic texts of length 2-3. " + TRUST + "Not decided: orf::Finder (VecDeque codon window + Vec<VecDeque>::contains + per-frame Vecs of symbolic length: 7 symbols timed out at 25 min).",
 ["bio::alphabets::dna::{complement,revcomp}", "bio::alphabets::rna::{complement,revcomp}", "bio::alphabets::Alphabet::{new,insert,len,is_empty,is_word,max_symbol}", "bio::alphabets::RankTransform::{new,get}", "bio::seq_analysis::gc::{gc_content,gc3_content,gcn_content}"],
 "see level_note",
 "orf::Finder::find_all; sequences longer than 24 (gc) / 6 (revcomp); alphabets other than the listed candidate sets; protein alphabets",
 ["gc_content is only asserted for non-empty sequences (0/0 is NaN by IEEE)"])
add("c20_dna_complement", 77, "dna::complement, all 256 byte values")
add("c20_rna_complement", 76, "rna::complement, all 256 byte values")
add("c20_dna_revcomp_n1", 70, "dna::revcomp, length 1, all bytes")
add("c20_dna_revcomp_n3", 70, "dna::revcomp, length 3, all bytes")
add("c20_rna_revcomp_n3", 66, "rna::revcomp, length 3, all bytes")
add("c20_dna_revcomp_n4", 71, "dna::revcomp, length 4, all bytes", tier="thorough")
add("c20_dna_revcomp_n6", 80, "dna::revcomp, length 6, all bytes", tier="thorough")
add("c20_rna_revcomp_n5", 80, "rna::revcomp, length 5, all bytes", tier="thorough")
add("c20_alphabet_small_c4_t3", 111, "Alphabet/RankTransform over every non-empty subset of {0,1,2,5}, symbolic text of length 3, symbolic queried member")
add("c20_alphabet_block_c4_t2", 258, "Alphabet/RankTransform over every non-empty subset of {0,31,32,63} (32-bit block boundary of the bit set), symbolic text of length 2", tier="thorough")
add("c20_alphabet_c3_t2", 319, "Alphabet/RankTransform over every non-empty subset of {31,32,255}, symbolic text of length 2", tier="thorough")
add("c20_alphabet_c4_t3", 390, "Alphabet/RankTransform over every non-empty subset of {A,C,G,T}, symbolic text of length 3", tier="thorough")
add("c20_gc_n1", 2, "gc_content/gc3_content, length 1", min_covers=1)
add("c20_gc_n4", 2, "gc_content/gc3_content, length 4", min_covers=2)
add("c20_gc_n6", 3, "gc_content/gc3_content, length 6", min_covers=2)
add("c20_gc_n7", 4, "gc_content/gc3_content, length 7", min_covers=2)
add("c20_gc_n9", 6, "gc_content/gc3_content, length 9", min_covers=2, tier="thorough")
add("c20_gc_n12", 10, "gc_content/gc3_content, length 12", min_covers=2, tier="thorough")
add("c20_gc_n24", 20, "gc_content/gc3_content, length 24", min_covers=2, tier="thorough")

# ---------------------------------------------------------------------------------------------------------------- C08
add = prop("C08", "c08",
 "Bounded model checking of the real ShiftAnd / BNDM / KMP code: for each listed (pattern length m, text length n, alphabet) ALL pattern and text contents are covered by one solver query; the iterator must yield exactly the naive-scan occurrence starts in increasing order and then None; texts shorter than the pattern and reuse of one matcher on two texts are separate instances; the 63/64-symbol boundary of ShiftAnd is covered with a concrete period-3 pattern and ALL texts over {A,C}; structured concrete patterns (unary, nested borders, Fibonacci, ruler words) are covered against ALL texts of length 6-12 over their alphabet.",
 "Bound: m<=3, n<=6 over 3 symbols and m=2,n=3 over all 256 byte values (quick), m<=3,n<=8 (thorough); m in {63,64} with n in {64,65,67} for ShiftAnd and BNDM with a concrete pattern. " + TRUST + "Not decided: Horspool (vec![m; 256] heap table + symbolic shifts: timeout 15 min even with a concrete pattern of one symbol) and BOM beyond a one-symbol pattern (Vec<VecMap>: out of memory).",
 ["bio::pattern_matching::shift_and::{ShiftAnd::new, ShiftAnd::find_all, masks, Matches::next}", "bio::pattern_matching::bndm::{BNDM::new, BNDM::find_all, Matches::next}", "bio::pattern_matching::kmp::{KMP::new, KMP::find_all, KMP::delta, lps, Matches::next}"],
 "see level_note", "Horspool, BOM; patterns longer than 3 symbols except the 63/64 boundary instances; texts longer than 8 (67 for the boundary instances)",
 [])
for h, t, b, tier in [
 ("c08_shiftand_m1_n3_a3", 8, "ShiftAnd m=1 n=3, bytes < 3", "quick"), ("c08_shiftand_m2_n5_a3", 33, "ShiftAnd m=2 n=5, bytes < 3", "quick"),
 ("c08_shiftand_m3_n6_a3", 79, "ShiftAnd m=3 n=6, bytes < 3", "quick"), ("c08_shiftand_m2_n3_a256", 56, "ShiftAnd m=2 n=3, all byte values", "quick"),
 ("c08_shiftand_m3_n8_a3", 179, "ShiftAnd m=3 n=8, bytes < 3", "thorough"), ("c08_reuse_shiftand", 78, "one ShiftAnd (m=2), texts of length 4 and 3", "quick"),
 ("c08_bndm_m1_n3_a3", 35, "BNDM m=1 n=3, bytes < 3", "quick"), ("c08_bndm_m2_n3_a256", 319, "BNDM m=2 n=3, all byte values", "thorough"),
 ("c08_bndm_m2_n5_a3", 457, "BNDM m=2 n=5, bytes < 3", "thorough"),
 ("c08_kmp_m1_n3_a3", 34, "KMP m=1 n=3, bytes < 3", "quick"), ("c08_kmp_m2_n3_a256", 26, "KMP m=2 n=3, all byte values", "quick"),
 ("c08_kmp_m2_n5_a3", 89, "KMP m=2 n=5, bytes < 3", "quick"), ("c08_kmp_m3_n6_a3", 120, "KMP m=3 n=6, bytes < 3", "quick"),
 ("c08_kmp_m3_n8_a3", 340, "KMP m=3 n=8, bytes < 3", "thorough"), ("c08_reuse_kmp", 123, "one KMP (m=2), texts of length 4 and 3", "quick"),
 ("c08_shiftand_fixed_m63_n64", 125, "ShiftAnd, concrete period-3 pattern of 63 symbols, all texts of length 64 over {A,C}", "quick"),
 ("c08_shiftand_fixed_m64_n64", 130, "ShiftAnd, concrete pattern of 64 symbols (documented maximum), all texts of length 64 over {A,C}", "quick"),
 ("c08_shiftand_fixed_m64_n65", 140, "ShiftAnd, concrete pattern of 64 symbols, all texts of length 65 over {A,C}", "quick"),
]:
    add(h, t, b, tier=tier)
for h, t, b, tier in [
 ("c08_bndm_fix_aaa_n6", 19, "BNDM, concrete pattern aaa x all texts of length 6 over {a,b}", "quick"),
 ("c08_bndm_fix_acag_n6", 17, "BNDM, concrete pattern acag x all texts of length 6 over {a,c,g}", "quick"),
 ("c08_bndm_fix_nest_n10", 85, "BNDM, concrete pattern abaabaa (three nested borders) x all texts of length 10 over {a,b,c}", "quick"),
 ("c08_bndm_fix_ruler_n10", 64, "BNDM, concrete ruler pattern abacabad x all texts of length 10 over {a,b,c,d}", "quick"),
 ("c08_kmp_fix_aaa_n7", 109, "KMP, concrete pattern aaa x all texts of length 7 over {a,b}", "quick"),
 ("c08_kmp_fix_acag_n8", 159, "KMP, concrete pattern acag x all texts of length 8 over {a,c,g}", "quick"),
 ("c08_kmp_fix_fib_n12", 730, "KMP, concrete Fibonacci-word pattern abaababa x all texts of length 12 over {a,b,c}", "thorough"),
 ("c08_kmp_fix_ruler_n12", 717, "KMP, concrete ruler pattern abacabad x all texts of length 12 over {a,b,c,d}", "thorough"),
 ("c08_kmp_fix_nest_n12", 985, "KMP, concrete pattern abaabaa (three nested borders) x all texts of length 12 over {a,b,c}", "thorough"),
 ("c08_shiftand_fix_aaa_n7", 14, "ShiftAnd, concrete pattern aaa x all texts of length 7 over {a,b}", "quick"),
 ("c08_shiftand_fix_nest_n12", 26, "ShiftAnd, concrete pattern abaabaa x all texts of length 12 over {a,b,c}", "quick"),
 ("c08_bom_fix_a_n3", 11, "BOM, concrete pattern a x all texts of length 3 over {a,b} (the only BOM instance within reach)", "quick"),
]:
    add(h, t, b, tier=tier)
add("c08_bndm_sparse_m64_n64_k0", 16, "BNDM, concrete pattern of 64 symbols (documented maximum) on the one concrete text equal to the pattern: shape-only guard for the 64-symbol boundary (a symbolic text at this length exhausts memory)", min_covers=1)

# ---------------------------------------------------------------------------------------------------------------- C05
add = prop("C05", "c05",
 "Bounded model checking of the real provided method FMIndexable::backward_search (LF-mapping loop, interval bookkeeping, Complete/Partial/Absent classification) and Interval semantics: for each listed (text length n, pattern length m, alphabet) ALL texts (last symbol '$', optionally a second sentinel at a symbolic position), the suffix array as the unique array satisfying the sortedness predicate, and ALL sentinel-free patterns are covered by one solver query; results are compared with a naive occurrence scan for every pattern suffix.",
 "Compositional: the harness implements FMIndexable with occ/less given by their definitions (counting loops over the BWT computed from the assumed-sorted suffix array) and runs the REAL backward_search on it; exactness of the real Occ/less/bwt tables is C04's subject. Bound: text n<=10 over {A,C} (n<=7 over {A,C,G,T}), 1-2 sentinels, pattern m<=4 incl. patterns longer than the text (quick); n=12 (m=4) and n=14 (m=3) in the thorough tier. " + TRUST + "Not decided: the three one-line delegations in impl FMIndexable for FMIndex<DBWT,DLess,DOcc> together with heap-built components (35 GB, measured), resolution through SampledSuffixArray, FMDIndex.",
 ["bio::data_structures::fmindex::FMIndexable::backward_search (provided method)", "bio::data_structures::fmindex::{Interval, BackwardSearchResult}"],
 "see level_note", "texts longer than 10; the FMIndex glue impl over real Occ tables; sampled suffix arrays", ["suffix array = the (unique) permutation under which adjacent suffixes are strictly increasing in byte order with shorter-is-smaller tie-break (sentinel-free patterns make the order among sentinel suffixes irrelevant)"])
for h, t, b, tier in [
 ("c05_bs_n4_m1", 9, "n=4 {A,C}$, m=1", "quick"), ("c05_bs_n4_m2", 11, "n=4, m=2", "quick"), ("c05_bs_n5_m2", 12, "n=5, m=2", "quick"),
 ("c05_bs_n5_m3", 14, "n=5, m=3", "quick"), ("c05_bs_n6_m2", 19, "n=6, m=2", "quick"), ("c05_bs_n6_m3", 20, "n=6, m=3", "quick"),
 ("c05_bs_n5_m2_multi", 13, "n=5, second sentinel at a symbolic position, m=2", "quick"), ("c05_bs_n6_m3_multi", 21, "n=6, two sentinels, m=3", "quick"),
 ("c05_bs_n3_m4", 10, "n=3, m=4 (pattern longer than text)", "quick"),
 ("c05_bs_n7_m3", 16, "n=7 over {A,C}$, m=3", "quick"), ("c05_bs_n8_m3", 20, "n=8, m=3", "quick"),
 ("c05_bs_n6_m3_acg", 15, "n=6 over {A,C,G}$, m=3", "quick"), ("c05_bs_n7_m2_acgt_multi", 33, "n=7 over {A,C,G,T}, two sentinels, m=2", "quick"),
 ("c05_bs_n8_m4_multi", 30, "n=8, two sentinels, m=4", "quick"), ("c05_bs_n10_m4", 51, "n=10, m=4", "quick"),
 ("c05_bs_n12_m4", 170, "n=12 over {A,C}$, m=4", "thorough"), ("c05_bs_n14_m3", 477, "n=14 over {A,C}$, m=3", "thorough"),
]:
    add(h, t, b, tier=tier, **({"min_covers": 2} if h in ("c05_bs_n4_m1", "c05_bs_n3_m4") else {}))

# ---------------------------------------------------------------------------------------------------------------- C09
add = prop("C09", "c09",
 "Bounded model checking of the real single-word Myers matcher (u8/u16/u32/u64 words) and of distance()/find_best_end() of the block-based matcher: for each listed (pattern length m, text length n, alphabet) ALL pattern/text contents and ALL thresholds k<=m+1 are covered by one solver query; find_all_end must yield exactly the (end, d) pairs of a textbook semi-global edit-distance DP with d<=k, in text order, distance() the minimum and find_best_end() the first argmin.",
 "Bound: Myers<u8> m in {1,3,7,8}, n<=5; Myers<u16> m in {3,16}; Myers<u32> m in {3,32}; Myers<u64> m in {3,63,64} (two-symbol alphabets for the full-width patterns); long::Myers<u8>::{distance,find_best_end} at m=3,n=2 and m=9 (two blocks),n=1. " + TRUST + "Not decided: long::Myers::find_all_end (per-column Vec<State> growing/truncating under symbolic conditions: out of memory at m=9,n=1), Ukkonen (out of memory at m=2,n=3), MyersBuilder ambiguity maps (std HashMap), distance::{hamming,levenshtein,simd::*} (editdistancek / triple_accel: timeout at 2x2, SIMD intrinsics unmodelled).",
 ["bio::pattern_matching::myers::Myers<T>::{new,new_ambig,_step,step,initial_state,distance,find_all_end,find_best_end} for T in {u8,u16,u32,u64}", "myers::myers_impl::Matches::next", "myers::State::{init,known_dist}", "bio::pattern_matching::myers::long::Myers<u8>::{new,distance,find_best_end}", "long::States::{new,add_state,step,known_dist}", "long::advance_block"],
 "see level_note", "patterns/texts beyond the listed sizes; ambiguity/wildcard tables; Ukkonen; the distance module", [])
for h, t, b, tier in [
 ("c09_myers_u8_m1_n3", 29, "Myers<u8> m=1 n=3, all bytes, k<=2", "quick"), ("c09_myers_u8_m3_n4", 78, "Myers<u8> m=3 n=4, all bytes, k<=4", "quick"),
 ("c09_myers_u8_m3_n5_a3", 60, "Myers<u8> m=3 n=5, bytes<3", "quick"), ("c09_myers_u8_m7_n3_a2", 53, "Myers<u8> m=7 n=3, bytes<2", "quick"),
 ("c09_myers_u8_m8_n3_a2", 46, "Myers<u8> m=8 (full word) n=3, bytes<2", "quick"), ("c09_myers_u16_m3_n4", 111, "Myers<u16> m=3 n=4, all bytes", "quick"),
 ("c09_myers_u16_m16_n3_a2", 113, "Myers<u16> m=16 (full word) n=3, bytes<2", "quick"), ("c09_myers_u32_m3_n4", 188, "Myers<u32> m=3 n=4", "thorough"),
 ("c09_myers_u32_m32_n2_a2", 183, "Myers<u32> m=32 (full word) n=2, bytes<2", "quick"), ("c09_myers_u64_m3_n4", 335, "Myers<u64> m=3 n=4", "thorough"),
 ("c09_myers_u64_m63_n2_a2", 556, "Myers<u64> m=63 n=2, bytes<2", "thorough"), ("c09_myers_u64_m64_n2_a2", 588, "Myers<u64> m=64 (full word) n=2, bytes<2", "thorough"),
 ("c09_long_u8_dist_m3_n2_a2", 25, "long::Myers<u8> distance/find_best_end, m=3 (1 block) n=2", "quick"),
 ("c09_long_u8_dist_m9_n1_a2", 31, "long::Myers<u8> distance/find_best_end, m=9 (2 blocks) n=1", "quick"),
]:
    add(h, t, b, tier=tier, role="long_distance" if "long" in h else "myers_simple", **({} if "long" in h else {"min_covers": 2}))

# ---------------------------------------------------------------------------------------------------------------- C01
add = prop("C01", "c01",
 "Bounded model checking of the real pairwise::Aligner: for each listed shape and clip pattern ALL sequence contents, ALL substitution tables (2x2 on symbol classes, entries in [-4,4], asymmetric and positive mismatch scores included), ALL gap penalties in [-4,0] and ALL enabled clip penalties in [-4,0] are covered by one solver query. (a) No competitor alignment the solver can pick (any sub-ranges, any operation string) scores higher than the reported score; (b) the reported operations and coordinates are walked against x and y and re-scored from the documented model. (a)+(b) => the score is the optimum and the path attains it.",
 "Bound: custom() at shape 1x1 with fully symbolic scoring for 6 of the 16 enabled/disabled clip patterns (quick: none, x-prefix only, x-suffix+y-prefix, x-prefix+y-suffix, both y ends, all four) and for all 16 (thorough); 1x2 shapes, the restore-after-semiglobal/global history (second call on the same object) and concrete-scheme variants (thorough). " + TRUST + "Not decided: path validity (b) from 2x2 upwards (walking a result Vec of symbolic length exhausts 24 GB; the optimality half (a) alone is decided at 2x2 and 3x3 in the thorough tier), local()/semiglobal() as first call (1x1 took 15-18 min and is covered only through the restore instances), history across different shapes. Outside: scores outside [-4,4]; overflow for astronomically large scores.",
 ["bio::alignment::pairwise::Aligner::{with_capacity_and_scoring,custom,global,semiglobal,local}", "pairwise::{Scoring,MatchFunc for closures,Traceback,TracebackCell}", "bio_types::alignment::Alignment::filter_clip_operations"],
 "see level_note", "see level_note", ["substitution function = 2x2 table indexed by (byte & 1); bytes themselves fully symbolic"])
for k in range(16):
    add(f"c01_custom_1x1_k{k}", 490, f"custom(), shape 1x1, clip pattern {k:04b} (bit0 xclip_prefix, bit1 xclip_suffix, bit2 yclip_prefix, bit3 yclip_suffix enabled, others MIN_SCORE); bytes, 2x2 score table, gaps and enabled clips symbolic", role="custom",
        tier="quick" if k in (0, 1, 6, 9, 12, 15) else "thorough")
P["C01"]["jobs"] = 6   # each query needs 6-10 GB
add("c01_custom_1x2_k0", 535, "custom(), shape 1x2, no clips (global)", tier="thorough", role="custom")
add("c01_fixed_1x2_k15_s1", 535, "custom(), shape 1x2, all clips enabled (symbolic in [-3,0]), concrete asymmetric table [[2,1],[-3,-1]] with gap_open 0, gap_extend -1", tier="thorough", role="custom")
add("c01_restore_1x2_k4_s0_semi", 1215, "semiglobal() then custom() on the same aligner, shape 1x2, only yclip_prefix enabled: the second call must be optimal+valid under the aligner's OWN clip penalties (wrapper must restore them)", tier="thorough", role="restore")
add("c01_restore_1x1_k15_s0_global", 715, "global() then custom() on the same aligner, shape 1x1, all clips enabled", tier="thorough", role="restore")
add("c01_opt_2x2_k0", 910, "custom() optimality only (universal competitor), shape 2x2, no clips, fully symbolic scoring", tier="thorough", role="custom_opt")
add("c01_opt_2x2_k15", 1030, "custom() optimality only, shape 2x2, all four clips enabled, fully symbolic scoring", tier="thorough", role="custom_opt")
add("c01_opt_3x3_k15", 1650, "custom() optimality only, shape 3x3, all four clips enabled, fully symbolic scoring", tier="thorough", role="custom_opt")
add("c01_fixed_1x1_k15_s0", 400, "custom(), 1x1, concrete table [[1,-1],[-1,1]], gaps -2/-1", tier="thorough", role="custom")

# ---------------------------------------------------------------------------------------------------------------- C02
add = prop("C02", "c02",
 "Bounded model checking of the real banded::Aligner with a band that covers the whole matrix (k longer than both sequences), on the degenerate shapes that are within reach: both sequences empty (termination of the traceback: a loop of the code under test that does not finish within the unwinding bound is replayed natively and reported only if the native run hangs too) and x empty / y of length 2 (path validity and re-scored path == reported score, all bytes symbolic).",
 "On these shapes the unchanged tree VIOLATES the property (two known findings, see KNOWN_FINDINGS.txt and DESIGN.md section 6): the check prints KNOWN-FINDING lines for exactly these and exits 0; any other counterexample is a violation. Nothing is decided for non-empty x: the banded DP at shape 1x1 (fully symbolic or concrete scoring, with or without cover witnesses) ran 8-13 min and then crashed CBMC at the 24 GB cap in every configuration tried (measured, 5 configurations), 2x2 timed out at 20-25 min; entry points that hash symbolic k-mers (FxHashMap) and custom_with_matches timed out; the MAX_CELLS sentinel needs > 5*10^6 band cells. " + TRUST,
 ["bio::alignment::pairwise::banded::Aligner::{with_capacity_and_scoring,custom,global,compute_alignment}", "banded::Band::{create,full_matrix,num_cells}", "bio::alignment::sparse::{find_kmer_matches,hash_kmers} (zero iterations: k > len)", "pairwise::{Traceback,TracebackCell}"],
 "shapes 0x0 and 0x2 only", "every shape with a non-empty x; all k-mer backbones; MAX_CELLS", ["scores of c01::SCHEMES[0] for the 0x2 instance; fully symbolic scoring for the 0x0 instances"])
add("c02_full_global_0x0", 24, "banded global(), both sequences empty, fully symbolic scoring: must terminate with the empty alignment", termination=True, role="banded_empty_both")
add("c02_fixed_global_0x2_s0", 58, "banded global(), x empty, y of length 2 (all bytes), concrete scheme 0: path valid and score = re-scored path", role="banded_empty_x")
add("c02_full_custom_0x0_k15", 78, "banded custom(), both sequences empty, all four clips enabled: must terminate", termination=True, role="banded_empty_both")

# ---------------------------------------------------------------------------------------------------------------- C04
add = prop("C04", "c04",
 "Bounded model checking of the real bwt(), less() and Occ::{new,get}: for each listed (length n, sampling rate k, alphabet) ALL byte strings over the alphabet (not only genuine BWTs), ALL rows r and ALL symbols c are covered by one solver query; Occ::get(r,c) must equal the count of c in bytes[0..=r], less[c] the number of symbols smaller than c for every c up to max_symbol+1, bwt[r] the cyclic predecessor of pos[r] for ANY pos array.",
 "Bound: Occ over alphabets of small byte values {1,2,3} (the table holds max_symbol+1 inner Vecs; 68 of them - a DNA alphabet - exhaust memory, measured), n in {4,6,8} (quick) and {10,12} (thorough), k from 1 to 2n (22 (n,k) pairs); less over {A,C,$}, {A,C,G}+$, {0,1,3} and an alphabet with a symbol above every text symbol, n<=6; bwt definition for n in {1,4,6} with arbitrary position arrays. " + TRUST + "Not decided: Occ with sampling rates above 64 (n >= 66 symbolic bytes: timeout/out of memory) unless the concrete-row instances complete, the '$'-slot special case of Occ::new (needs >= 37 inner Vecs: out of memory), invert_bwt (Alphabet::new over symbolic symbols: out of memory at n=2).",
 ["bio::data_structures::bwt::{bwt, less, Occ::new, Occ::get}", "bio::utils::prescan", "bytecount::count (scalar path)"],
 "see level_note", "alphabets with large byte values; k > 64; invert_bwt; texts longer than 12", ["Occ/less are checked on arbitrary byte strings over the alphabet, a superset of the BWTs of sentinel-terminated texts"])
for n, ks in [(4, [1, 2, 3, 4, 5, 8]), (6, [1, 2, 3, 4, 5, 6, 7, 12]), (8, [1, 3, 5, 8, 16]), (10, [3, 7]), (12, [5])]:
    for k in ks:
        add(f"c04_occ_n{n}_k{k}", 55, f"Occ::new/get, all strings of length {n} over {{1,2,3}}, sampling rate k={k}, all rows and symbols", min_covers=2,
            tier="quick" if (n, k) in [(4, 1), (4, 3), (4, 8), (6, 2), (6, 4), (6, 7), (6, 12), (8, 1), (8, 3), (8, 16)] else "thorough")
add("c04_less_n5_ac", 85, "less(), all strings of length 5 over {A,C,$}, alphabet {A,C,$}, every c <= 'C'+1")
add("c04_less_n6_acg", 76, "less(), all strings of length 6 over {A,C,G,$}, alphabet {A,C,G}", tier="thorough")
add("c04_less_n6_small", 12, "less(), all strings of length 6 over {0,1,3}")
add("c04_less_n6_gap", 8, "less(), all strings of length 6 over {1,2} with alphabet {1,2,5} (a symbol above every text symbol), every c <= 6")
add("c04_bwt_n1", 2, "bwt(text,pos) definition, n=1")
add("c04_bwt_n4", 3, "bwt(text,pos) definition, n=4, all bytes, all pos arrays with entries < n")
add("c04_bwt_n6", 3, "bwt(text,pos) definition, n=6")

# ---------------------------------------------------------------------------------------------------------------- C19
add = prop("C19", "c19",
 "Bounded model checking of the real q-gram machinery: for each listed (alphabet size, q, text length) ALL texts over the alphabet are covered by one solver query; RankTransform::qgrams must yield exactly the packed-rank code of every window (definition), codes of two windows are equal iff the windows are equal (injectivity), and rev_qgrams mirrors qgrams.",
 "Bound: alphabets of size 1, 3 and 5 (small byte values), q = 2, texts of length <= 4. " + TRUST + "Alphabet sizes that are exact powers of two cannot be decided: the code computes ceil(log2(|A|)) in f32 and CBMC's model of log2f is not exact at powers of two (the solver reports spurious counterexamples that do not replay natively; such results are classified inconclusive, never violations), so those instances are not listed. Not decided: QGramIndex (its `pos` vector has a symbolic length; before the repair of finding F4 the index instances failed fast with the out-of-bounds counterexample, after the repair they exhaust memory - 7 min, crash - so they are no longer listed), lcskpp/sdpkpp (Fenwick tree of symbolic length: out of memory at 2 matches), matches/exact_matches (std HashMap), find_kmer_matches* (FxHashMap with symbolic keys).",
 ["bio::alphabets::RankTransform::{new,get,qgrams,rev_qgrams}", "alphabets::QGrams::{next,qgram_push}", "alphabets::RevQGrams::{next,qgram_push_rev}", ],
 "see level_note", "alphabet sizes 2,4,8,...; q >= 3; longer texts; chaining; hash-based matching", [])
for h, t, b in [
 ("c19_qgrams_a1_q2_n3", 14, "qgrams/rev_qgrams, |A|=1, q=2, text length 3"),
 ("c19_qgrams_a3_q2_n4", 23, "qgrams/rev_qgrams, |A|=3, q=2, all texts of length 4"),
 ("c19_qgrams_a5_q2_n4", 33, "qgrams/rev_qgrams, |A|=5, q=2, all texts of length 4"),
]:
    add(h, t, b, role="qgram")

# ---------------------------------------------------------------------------------------------------------------- C15
add = prop("C15", "c15",
 "Bounded model checking of the floating-point kernels that do not depend on libm values, bit-precisely (CBMC's IEEE-754 encoding of +,*,casts,shifts,from_bits): Prob::checked for ALL 2^64 f64 bit patterns; the fastexp kernel for ALL doubles x <= 0 (never NaN, result in [0, 1.005], (almost) zero below the cut-off, within 0.5 % of 1 at 0) and, cell by cell, for ALL doubles in each cell of a partition of the argument range: exp(lo)*(1-0.005) <= fastexp(x) <= exp(hi)*(1+0.005).",
 "The cell bounds use endpoint values of exp computed natively at generation time (trusted: exp is monotone; libm's exp is within 1 ulp at the endpoints, and the constants are rounded outward). By construction a kernel within the property's 0.5 % of exp is never rejected; a kernel accepted on a cell is within 0.5 % + cell slack (1.09 % for the 64-cell partition used). Quick: Prob::checked, the range harness (all x <= 0) and 16 of the coarse cells (64 per octave for the octaves 2^0, 2^-1, 2^-8, 2^-64, 2^-512) whose measured solver time is at most 2 min, rotated by VERIF_SEED so that successive runs cover different cells. Thorough: all 316 coarse cells that a complete run decided (solver time per cell varies from 5 s to 36 min; 4 of the 320 cells did not finish within 46 min and are not listed, so the accuracy claim has these 4 gaps: c15_cellq_o8_001, o512_003, o512_022, o512_039). " + TRUST + "Structure of log-space addition (ln(0) neutral, never NaN, result >= larger operand) is decided with f64::ln_1p replaced by a nondeterministic contract stub (-Z stubbing), i.e. for every function satisfying ln_1p's contract. Not decidable with this technique: every clause whose value depends on libm (ln_1p unsupported, exp/ln over-approximated by CBMC): the 0.5 % bound for ln_add_exp/ln_sum_exp/ln_cumsum_exp/ln_sub_exp/ln_one_minus_exp, the integrators, Prob<->LogProb and Prob<->PHRED conversions; the PHRED<->LogProb round trip (two multiplications by constants with a relative-error assertion) timed out at 10 min.",
 ["bio::stats::probs::Prob::checked", "<f64 as bio::utils::FastExp>::fastexp", "bio::stats::probs::LogProb::{ln_add_exp, ln_sum_exp, ln_cumsum_exp, scan_ln_add_exp, ln_zero} (with f64::ln_1p stubbed by its contract)"],
 "see level_note", "everything that calls libm; arguments between the listed octaves at the fine resolution", ["monotonicity of the real exponential; natively computed exp at cell endpoints, rounded outward by one ulp", "structure instances: f64::ln_1p is replaced by a stub returning ANY value allowed by its contract (exact 0 at 0, NaN below -1, -inf at -1, 0 <= r <= x for x > 0, r <= x for -1 < x < 0)"])
add("c15_prob_checked", 1, "Prob::checked(p).is_ok() <=> 0 <= p <= 1, all f64 bit patterns incl. NaN, +-inf, -0.0")
STUB = ["--no-memory-safety-checks", "-Z", "stubbing"]
add("c15_ln_add_exp_structure", 35, "LogProb::ln_add_exp for ALL valid operand pairs (incl. -inf) with f64::ln_1p replaced by a contract stub (ln_1p(0)=0, sign of x, |ln_1p(x)|<=|x| for x>0, ln_1p(x)<=x for x<0): ln(0) is neutral on either side bit-for-bit, no NaN, result >= larger operand", flags=STUB, role="structure")
add("c15_ln_sum_exp_structure_n1", 4, "LogProb::ln_sum_exp / ln_cumsum_exp on one operand, ln_1p stubbed: no NaN, sum of zeros is zero, cumulative sum non-decreasing", flags=STUB, role="structure", min_covers=0)
add("c15_ln_sum_exp_structure_n3", 770, "LogProb::ln_sum_exp / ln_cumsum_exp on three operands (all valid values incl. -inf), ln_1p stubbed: no NaN, result >= max operand, all-zero list gives zero, cumulative sum non-decreasing", flags=STUB, role="structure", tier="thorough")
add("c15_fastexp_range", 10, "fastexp for all doubles x <= 0 incl. -inf: not NaN, in [0,1.005], ~0 below -500, within 0.5 % at 0")
# per-cell solver times measured by a complete thorough run on the unchanged tree (c15_cells.json); cells that did not finish
# within 46 min there (4 of 320) are not listed. Cells that took <= 120 s are eligible for the quick tier's seed rotation.
_cells = json.load(open(os.path.join(V, "c15_cells.json")))
for name in sorted(_cells):
    t = _cells[name]
    o, i = re.match(r"c15_cellq_o(\d+)_(\d+)", name).groups()
    add(name, max(60, t), f"fastexp accuracy, coarse cell {int(i)}/64 of the octave x*log2(e) in ({-int(o)-1},{-int(o)}]: all doubles in the cell",
        tier="rotate" if t <= 120 else "thorough", role="cell")
P["C15"]["rotate_k"] = 16

json.dump(P, open(os.path.join(V, "instances.json"), "w"), indent=1)
print({k: len(v["instances"]) for k, v in P.items()})
