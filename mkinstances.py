#!/usr/bin/env python3
"""Instance tables (committed, not discovered at run time): per property the harness instances that completed on the
unchanged tree during development, with measured solver time `t` (seconds, under 16-way load). Writes instances.json."""
import json, os
V = os.path.dirname(os.path.abspath(__file__))
P = {}

def prop(pid, feature, level_text, level_note, functions, bounds, outside, assumptions):
    P[pid] = dict(feature=feature, level_text=level_text, level_note=level_note, functions=functions, bounds=bounds,
                  outside=outside, assumptions=assumptions, instances=[])
    def add(h, t, bound, tier="quick", **kw):
        d = dict(h=h, tier=tier, t=t, bound=bound)
        d.update(kw)
        P[pid]["instances"].append(d)
    return add

TRUST = "Trusted: Kani 0.68/CBMC 6.11/CaDiCaL, the MIR of Kani's pinned rustc, Kani's models of std (Vec, alloc). "

# ---------------------------------------------------------------------------------------------------------------- C18
add = prop("C18", "c18",
 "Bounded model checking of the real BitEnc / FenwickTree / SmallInts code: for every listed script shape (kinds and counts of operations concrete, every stored value, set index and observed index symbolic) the solver shows that all observers (nr_symbols, nr_blocks, get incl. out-of-range, iter, is_empty) agree with a plain vector model, for ALL values at once. Right level because the defects here live in rare shape/value corners (phantom slot for widths not dividing 32, unmasked fill value) that sampling misses and the solver returns as satisfying assignments.",
 "Bound: BitEnc widths 1..=8; scripts push^a;push_values(n);push;set with a in {1,per-1,per}, n in {0,1,2,per-2..per+1,2per-1,2per+1} (per = values per block) plus five history scripts per width (fill first, clear+reuse, consecutive fills); Fenwick trees of length <=8 with <=4 updates; SmallInts from_elem/set. " + TRUST + "Outside: longer scripts, symbolic operation kinds, set() beyond len.",
 ["bio::data_structures::bitenc::BitEnc::{new,push,push_values,set,get,iter,clear,nr_blocks,nr_symbols,is_empty,addr,set_by_addr,get_by_addr}", "bio::data_structures::bitenc::BitEncIter::next", "bio::data_structures::bit_tree::FenwickTree::{new,get,set} for SumOp/MaxOp over u32 and MaxOp over (u32,u32)", "bio::data_structures::smallints::SmallInts::<i8,isize>::{from_elem,set,get,len}"],
 "see level_note; per-instance bounds are in coverage.samples[].bound",
 "scripts with symbolic operation kinds or counts (Vec::resize with a symbolic length exhausts memory: measured), SmallInts push/set scripts (BTreeMap::insert in the cone: out of memory at 24 GB)",
 ["set(i, v) only with i < len (documented precondition)", "Fenwick sum values < 2^24 so that sums cannot overflow u32"])
t_h = {1: 75, 2: 47, 3: 36, 4: 28, 5: 25, 6: 29, 7: 21, 8: 21}
t_f = {1: 432, 2: 250, 3: 206, 4: 163, 5: 158, 6: 149, 7: 115, 8: 100}
for w in range(1, 9):
    add(f"c18_bitenc_hist_w{w}", t_h[w], f"BitEnc width {w}: 5 history scripts (fill first; push^(per+1),clear,push,fill(per),push; push,fill(1),fill(per),set,push; fill(2),clear; push^2,set,fill(2per),clear,fill(3),set), all values/indices symbolic", role="bitenc_hist")
for w in range(1, 9):
    add(f"c18_bitenc_fill_w{w}", t_f[w], f"BitEnc width {w}: push^a;push_values(n);push;set for a in {{1,per-1,per}} x n in {{0,1,2,per-2,per-1,per,per+1,2per-1,2per+1}}, all values/indices symbolic", tier="quick" if w in (3, 5, 6, 7) else "thorough", role="bitenc_fill")
add("c18_fenwick_sum_l5_k3", 27, "SumBitTree<u32> len 5, 3 symbolic updates, symbolic query")
add("c18_fenwick_max_l5_k3", 13, "MaxBitTree<u32> len 5, 3 updates")
add("c18_fenwick_maxpair_l5_k3", 43, "MaxBitTree<(u32,u32)> len 5, 3 updates")
add("c18_fenwick_max_l8_k4", 155, "MaxBitTree<u32> len 8, 4 updates")
add("c18_smallints_from_elem_n3", 62, "SmallInts<i8,isize>::from_elem(v,3); set(i,w) with symbolic v,i,w; get")
add("c18_fenwick_sum_l8_k4", 300, "SumBitTree<u32> len 8, 4 updates", tier="thorough")
add("c18_fenwick_maxpair_l8_k4", 300, "MaxBitTree<(u32,u32)> len 8, 4 updates", tier="thorough")

# ---------------------------------------------------------------------------------------------------------------- C17
add = prop("C17", "c17",
 "Bounded model checking of the real RankSelect code: for each listed bit-vector length n and superblock factor k, ALL 2^n bit contents and ALL query arguments (i in [0,n+1], j in [0,n+1]) are covered by one solver query each; rank_1/rank_0/get are compared with counting loops, select_1/select_0 with a naive scan (None for j=0 and j>count, never a padding bit), and the inverse laws rank(select(j)) = j are asserted.",
 "Bound: rank at n in {1,7,8,9,31,33} (quick) + {40,65,72 with k in {1,2}} (thorough); select at n in {1,7,8,9} (quick) + {16,17,24} (thorough). " + TRUST + "Not decided: WaveletMatrix (its level construction partitions symbolic symbols into Vecs of symbolic length: n=3 timed out at 15 min, n>=5 out of memory) and select beyond n=24 (timeout at n=31).",
 ["bio::data_structures::rank_select::RankSelect::{new,rank_1,rank_0,select_1,select_0,select_x,get}", "rank_select::superblocks", "rank_select::SuperblockRank::{cmp,deref}", "bv::BitVec<u8>::{new_fill,set,get_block,len,block_len}"],
 "n <= 72 bits for rank (k in {1,2}), n <= 24 bits for select (k = 1); all bit contents and all query arguments symbolic",
 "longer bit vectors; superblock factors > 2; WaveletMatrix::rank",
 ["bit vectors are built through BitVec::new_fill(false, n) + set(i, b): padding bits of the last byte are zero, as the API leaves them"])
for n, t in [(1, 19), (7, 28), (8, 24), (9, 42), (31, 152), (33, 170)]:
    add(f"c17_rank_n{n}_k1", t, f"rank_1/rank_0/get, n={n} bits, k=1, all contents, i in [0,n+1]")
for n, k, t in [(40, 1, 219), (65, 1, 464), (65, 2, 611), (72, 2, 563)]:
    add(f"c17_rank_n{n}_k{k}", t, f"rank_1/rank_0/get, n={n} bits, k={k}", tier="thorough")
for n, t in [(1, 209), (7, 243), (8, 245), (9, 208)]:
    add(f"c17_select_n{n}_k1", t, f"select_1/select_0 + inverse laws, n={n} bits, k=1, all contents, j in [0,n+1]")

# ---------------------------------------------------------------------------------------------------------------- C20
add = prop("C20", "c20",
 "Bounded model checking of the real complement tables, revcomp, Alphabet/RankTransform and GC-content code: all 256 byte values (complements), all byte contents of sequences of the listed lengths (revcomp, gc), every non-empty subset of the listed candidate symbols with symbolic texts (alphabets) are covered by the solver in one query each.",
 "Bound: dna/rna complement over all 256 bytes (involution, case bit preserved, non-IUPAC bytes fixed, A-T/U and C-G pairs); revcomp twice = identity and revcomp = reverse o complement for lengths 1,3,4; gc_content/gc3_content == count/len as one f32 division for lengths 1,4,6,7; Alphabet::{insert,len,is_word,max_symbol} and RankTransform::{new,get} for all non-empty subsets of 3-5 candidate bytes (incl. 0, 31/32 block boundary, 255) with symbolic texts of length 2-3. " + TRUST + "Not decided: orf::Finder (VecDeque codon window + Vec<VecDeque>::contains + per-frame Vecs of symbolic length: 7 symbols timed out at 25 min).",
 ["bio::alphabets::dna::{complement,revcomp}", "bio::alphabets::rna::{complement,revcomp}", "bio::alphabets::Alphabet::{new,insert,len,is_empty,is_word,max_symbol}", "bio::alphabets::RankTransform::{new,get}", "bio::seq_analysis::gc::{gc_content,gc3_content,gcn_content}"],
 "see level_note",
 "orf::Finder::find_all; sequences longer than 7 (gc) / 4 (revcomp); alphabets other than the listed candidate sets; protein alphabets",
 ["gc_content is only asserted for non-empty sequences (0/0 is NaN by IEEE)"])
add("c20_dna_complement", 77, "dna::complement, all 256 byte values")
add("c20_rna_complement", 76, "rna::complement, all 256 byte values")
add("c20_dna_revcomp_n1", 70, "dna::revcomp, length 1, all bytes")
add("c20_dna_revcomp_n3", 70, "dna::revcomp, length 3, all bytes")
add("c20_rna_revcomp_n3", 66, "rna::revcomp, length 3, all bytes")
add("c20_dna_revcomp_n4", 71, "dna::revcomp, length 4, all bytes", tier="thorough")
add("c20_gc_n1", 2, "gc_content/gc3_content, length 1")
add("c20_gc_n4", 2, "gc_content/gc3_content, length 4")
add("c20_gc_n6", 3, "gc_content/gc3_content, length 6")
add("c20_gc_n7", 4, "gc_content/gc3_content, length 7")

json.dump(P, open(os.path.join(V, "instances.json"), "w"), indent=1)
print({k: len(v["instances"]) for k, v in P.items()})
