#!/bin/bash
# usage: tools/confirm_seed.sh <worktree> <patch.diff> <demo.rs>
# Confirms in a scratch worktree: the change compiles and passes the existing tests; the demo fails with it and passes without.
WT=$1; PATCH=$2; DEMO=$3
cd "$WT" || exit 3
git checkout -q -- . ; rm -f tests/demo_mut.rs
git apply "$PATCH" || { echo "CONFIRM: patch does not apply"; exit 3; }
export CARGO_NET_OFFLINE=true
if cargo test --offline --lib --tests >/tmp/confirm_suite.log 2>&1; then echo "CONFIRM: existing suite passes with the change: $(grep -h 'test result' /tmp/confirm_suite.log | tr '\n' ' ')"; else echo "CONFIRM: existing suite FAILS with the change"; tail -5 /tmp/confirm_suite.log; git checkout -q -- .; exit 1; fi
cp "$DEMO" tests/demo_mut.rs
if cargo test --offline --test demo_mut >/tmp/confirm_demo1.log 2>&1; then echo "CONFIRM: demo PASSES with the change (bad)"; rc=1; else echo "CONFIRM: demo fails with the change: $(grep -h 'test result' /tmp/confirm_demo1.log | tr '\n' ' ')"; rc=0; fi
git checkout -q -- .
if cargo test --offline --test demo_mut >/tmp/confirm_demo2.log 2>&1; then echo "CONFIRM: demo passes without the change: $(grep -h 'test result' /tmp/confirm_demo2.log | tr '\n' ' ')"; else echo "CONFIRM: demo FAILS without the change (bad)"; rc=1; fi
rm -f tests/demo_mut.rs
exit $rc
