#!/bin/bash
# usage: tools/try_seed.sh <property> <patch.diff> [extra ./check args]
# Applies a seeded change to /repo, runs the property's check, and always restores /repo afterwards.
# Holds the checks' global lock for the whole time, so that no other check compiles /repo while the change is applied.
set -u
P=$1; PATCH=$2; shift 2
mkdir -p /verif/harness/target
exec 9>/verif/harness/target/.check.lock
flock 9
cd /repo || exit 3
if ! git diff --quiet; then echo "/repo has uncommitted changes; refusing"; exit 3; fi
git apply "$PATCH" || { echo "patch does not apply"; exit 3; }
cd /verif && VERIF_LOCK_HELD=1 VERIF_EVIDENCE_DIR=/verif/cex/evidence_seed ./check "$P" "$@" 9>&-; rc=$?
git -C /repo checkout -- .
echo "try_seed: check exit code $rc"
exit $rc
