#!/bin/bash
# usage: tools/try_seed.sh <property> <patch.diff> [extra ./check args]
# Applies a seeded change to /repo, runs the property's check, and always restores /repo afterwards.
set -u
P=$1; PATCH=$2; shift 2
cd /repo || exit 3
if ! git diff --quiet; then echo "/repo has uncommitted changes; refusing"; exit 3; fi
git apply "$PATCH" || { echo "patch does not apply"; exit 3; }
cd /verif && VERIF_EVIDENCE_DIR=/verif/cex/evidence_seed ./check "$P" "$@"; rc=$?
git -C /repo checkout -- .
echo "try_seed: check exit code $rc"
exit $rc
