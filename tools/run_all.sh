#!/bin/bash
# usage: tools/run_all.sh quick|thorough [ids...]   — runs the registered checks one after another (they share one lock)
TIER=${1:-quick}; shift
IDS=${@:-$(python3 -c "import json;print(' '.join(c['property_id'] for c in json.load(open('/verif/MANIFEST.json'))['checks']))")}
cd /verif
for p in $IDS; do
  t0=$(date +%s)
  ./check $p --tier $TIER > /tmp/klog/final_${TIER}_$p.txt 2>&1; rc=$?
  echo "$p tier=$TIER exit=$rc wall=$(( $(date +%s) - t0 ))s $(grep -c KNOWN-FINDING /tmp/klog/final_${TIER}_$p.txt) known-finding lines"
done
