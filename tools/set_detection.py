#!/usr/bin/env python3
"""Record, per seeded change, what the checks did with it (filled in from tools/try_seed.sh runs)."""
import json, os
V = os.path.dirname(os.path.dirname(os.path.abspath(__file__)))
D = {
 "C05_A": ("caught", "quick", "./check C05: 8 of 9 instances fail (e.g. c05_bs_n4_m2 'Complete reported but the pattern does not occur'); replays natively"),
 "C05_B": ("missed", "-", "Occ::get's k > 64 branch needs n >= 66 symbolic bytes; every such C04 instance timed out or ran out of memory (DESIGN 1.2 item 4), and C05 is compositional (exact occ by definition) so it never executes Occ::get"),
 "C08_A": ("caught", "quick", "./check C08: c08_bndm_fix_aaa_n6 / c08_bndm_fix_acag_n6 (concrete pattern x all texts) report a missing occurrence; replays natively. The fully symbolic BNDM instances (m <= 2) cannot see it (needs a bordered proper prefix, m >= 3)"),
 "C08_B": ("caught", "thorough", "./check C08 --tier thorough: c08_kmp_fix_nest_n12 (concrete pattern abaabaa with three nested borders x all texts of length 12 over {a,b,c}) reports a missing occurrence; replays natively. The quick tier and the fib/ruler families pass with the change applied; the nest family was added because of this change"),
 "C09_A": ("missed", "-", "the change is only reachable through MyersBuilder (text wildcards); MyersBuilder::new() constructs a std HashMap whose RandomState needs a syscall that Kani does not support (harness c09_myers_u8_wild_*: unsupported construct), so the builder path is not decided"),
 "C09_B": ("missed", "-", "needs long::Myers::find_all_end with >= 2 full blocks; that entry point exhausts memory at m=9,n=1 and is listed as not decided; the long distance()/find_best_end() instances are unaffected by the change and pass"),
 "C17_A": ("caught", "quick", "./check C17: c17_rank_n33_k1 'rank_1 differs from naive count'; replays natively"),
 "C17_B": ("caught", "quick", "./check C17: c17_select_n33_k1 / c17_select_n40_k1 (after the harness was rewritten with a loop-free word-model oracle; before that select was only decided up to n = 9 and this change was missed)"),
 "C18_A": ("caught", "quick", "./check C18: c18_bitenc_fill_w3/w7, c18_bitenc_hist_w3.. index out of bounds; replays natively (this change re-introduces finding F3a)"),
 "C18_B": ("caught", "quick", "./check C18: c18_fenwick_max_l8_k4 index out of bounds (tree length 8 = power of two); replays natively"),
 "C20_A": ("caught", "quick", "./check C20: c20_dna_complement / c20_dna_revcomp_n*: involution fails for lower-case d/v/h/b; replays natively"),
 "C20_B": ("caught", "quick", "./check C20: c20_gc_n4/n6/n7 'gc_content is not count/len' (byte 0xC3..); replays natively"),
 "C04_A": ("caught", "quick", "./check C04: c04_less_n6_small and c04_less_n6_gap 'less[c] differs from the number of symbols smaller than c'; replays natively"),
 "C04_B": ("missed", "-", "needs an alphabet containing byte 0xFF, i.e. an Occ table of 256 inner Vecs; Occ instances are only tractable for max_symbol <= 3 (68 inner Vecs already exhaust memory)"),
 "C15_A": ("caught", "quick", "./check C15: c15_fastexp_range (fastexp(x) negative/-inf for x in (-745,-709]); replays natively"),
 "C15_B": ("caught", "quick", "./check C15: c15_prob_checked (NaN accepted); replays natively"),
 "C19_A": ("caught", "quick", "./check C19: c19_qgrams_a3_q2_n4 / a5 'q-gram code differs from the packed-rank definition'; replays natively"),
 "C19_B": ("missed", "-", "lcskpp builds a Fenwick tree whose length is a symbolic expression; every lcskpp/sdpkpp harness ran out of memory at 2-3 matches, so chaining is listed as not decided"),
 "C01_A": ("reported by the solver, not confirmed natively", "thorough", "./check C01 --tier thorough --only restore_1x2_k4: c01_restore_1x2_k4_s0_semi FAILS after 1532 s with the check 'C01: a disabled end was clipped' (exactly the seeded effect: after semiglobal() the y-suffix clip is enabled by mistake). The trace-producing re-run needed for the native replay did not finish within its 60-minute cap, so the check exits 2 (not verified) instead of printing VIOLATION. The quick tier does not contain a restore instance (20 min per query)"),
 "C01_B": ("caught", "quick", "./check C01: c01_custom_1x1_k1 and _k15 (xclip_prefix enabled): the reported score exceeds the re-scored path / a competitor; replays natively"),
 "C02_A": ("missed", "-", "needs the banded DP at shape 1x1 with yclip_suffix enabled; every non-empty banded instance crashed CBMC at the 24 GB cap (DESIGN 10.1). With the change applied ./check C02 reports only its two known findings"),
 "C02_B": ("missed", "-", "needs custom_with_matches with two matches; that entry point timed out at 2x2 with one match and is listed as not decided"),
}
for k, (res, tier, how) in D.items():
    p = os.path.join(V, "seeded", k, "meta.json")
    m = json.load(open(p))
    m["detection"] = {"result": res, "tier": tier, "how": how, "ran": "tools/try_seed.sh %s seeded/%s/patch.diff [--only ...] (git -C /repo apply; ./check; git -C /repo checkout -- .)" % (m["property"], k)}
    json.dump(m, open(p, "w"), indent=1)
print("updated", len(D))
